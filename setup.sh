#!/bin/sh
# Offline setup: nothing to build. Verifies the interpreter, the repo import and the solver wheels.
set -e
cd "$(dirname "$0")"
mkdir -p .work evidence
PYTHONPATH=/repo /venv/bin/python -B -c "import sweetpea, pycryptosat, pycmsgen, pyunigen; print('setup ok', sweetpea.__file__)"
