from q import *
import sys, json, random, signal, collections, threading, os
from refproto import *
import sweetpea._internal.sampling_strategy.scattered_map_core as smc
class TO(Exception): pass
def alarm(*a): raise TO()
signal.signal(signal.SIGALRM, alarm)
# make SMGen's timer a daemon so the process can exit
_OT=threading.Timer
class DT(_OT):
    def __init__(self,*a,**k): super().__init__(*a,**k); self.daemon=True
smc.threading.Timer=DT
rng=random.Random(int(sys.argv[1])); stats=collections.Counter(); shown=collections.Counter()
def gen_sm(rng):
    while True:
        s=gen_spec(rng)
        # keep SMGen-plausible: only within/transition derived, cons in {MinimumTrials, ExactlyKInARow}
        if any(f['kind']=='derived' and f['win'][0]=='window' for f in s['factors'].values()): continue
        s['constraints']=[c for c in s['constraints'] if c['type'] in ('MinimumTrials','ExactlyKInARow')]
        s['rcc']=True
        return s
for it in range(int(sys.argv[2])):
    spec=gen_sm(rng)
    signal.alarm(15)
    try:
        try: b=build(spec)
        except Exception as e: stats['ctor']+=1; continue
        T=b.trials_per_sample()
        r=q(synthesize_trials,b,3,SMGen)
        if isinstance(r,tuple):
            k='refuse' if ('not supported' in r[2] or 'Unsupported' in r[2]) else 'EXC:'+r[1]+':'+r[2][:40]+':'+r[3][-1][2]
            stats[k]+=1
            if not k.startswith('refuse') and shown[k]<1: shown[k]+=1; print("##",k,json.dumps({kk:vv for kk,vv in spec.items() if kk!='factors'}), {n:{k2:v2 for k2,v2 in f.items() if k2!='table'} for n,f in spec['factors'].items()})
            continue
        Tref,p,S,X,allowed=trial_count(spec)
        Tr,ref=enumerate_valid(spec,cap=3000)
        if ref is None: stats['ref_big']+=1; continue
        refset=set(json.dumps(e,sort_keys=True) for e in ref)
        bad=[e for e in r if json.dumps(e,sort_keys=True) not in refset]
        if bad:
            lens={k:len(v) for k,v in bad[0].items()}
            kind='INVALID'+(':len' if any(l!=Tref for l in lens.values()) else '')
            stats[kind]+=1
            if shown[kind]<3: shown[kind]+=1; print("##",kind,"T",T,Tref,json.dumps({kk:vv for kk,vv in spec.items() if kk!='factors'}), {n:{k2:v2 for k2,v2 in f.items() if k2!='table'} for n,f in spec['factors'].items()}, bad[0])
        else: stats['valid' if r else 'empty']+=1
    except TO: stats['timeout']+=1
    finally: signal.alarm(0)
print(dict(stats)); os._exit(0)
