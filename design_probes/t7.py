from q import *
import sys, json, random, signal, collections
from refproto2 import *
class TO(Exception): pass
def alarm(*a): raise TO()
signal.signal(signal.SIGALRM, alarm)
seed=int(sys.argv[1]); n=int(sys.argv[2])
rng=random.Random(seed); stats=collections.Counter(); shown=collections.Counter()
def norm(r): return sorted(set(json.dumps(e,sort_keys=True) for e in r))
def show(tag,F,tree,extra):
    shown[tag]+=1
    if shown[tag]<=2:
        print("##",tag,json.dumps({'F':{n:{k:v for k,v in f.items() if k!='table'} for n,f in F.items()},'tree':tree})); print("   ",extra)
for i in range(n):
    F,tree=gen(rng)
    signal.alarm(40)
    try:
        fl=flatten(F,tree)
        b=q(build,F,tree)
        if isinstance(b,tuple):
            stats['ctor:'+b[1]+(':expected' if fl['und']=='ctor-error-expected' else ':UNEXPECTED')]+=1
            if fl['und']!='ctor-error-expected': show('ctor_unexp',F,tree,(b,fl['und']))
            continue
        if fl['und']=='ctor-error-expected':
            stats['ctor_ok_but_error_expected']+=1; show('ctor_ok_but_error_expected',F,tree,None); continue
        Ti=b.trials_per_sample()
        if Ti!=fl['T']: stats['T_DIFF']+=1; show('T_DIFF',F,tree,(Ti,fl['T'],fl['und'])); continue
        if fl['und']: stats['und:'+fl['und']]+=1; continue
        if Ti>8: stats['big']+=1; continue
        try: ref=enumerate_flat(F,fl,cap=400)
        except KeyError: stats['ref_window_beyond']+=1; continue
        if ref is None: stats['ref_toolarge']+=1; continue
        nref=norm(ref)
        r1=q(synthesize_trials,b,3000,IterateSATGen)
        b2=build(F,tree); r2=q(synthesize_trials,b2,3000,RandomGen)
        for tag,r in (('SAT',r1),('RND',r2)):
            if isinstance(r,tuple):
                k=tag+'_exc:'+r[1]+':'+r[3][-1][2]; stats[k]+=1; show(k,F,tree,r); continue
            nr=norm(r)
            if nr==nref: stats[tag+'_agree'+('_empty' if not nref else '')]+=1
            else:
                extra=[x for x in nr if x not in set(nref)]; missing=[x for x in nref if x not in set(nr)]
                kind=tag+('_EXTRA' if extra else '')+('_MISSING' if missing else '')+':'+tree['op']
                stats[kind]+=1; show(kind,F,tree,(len(nr),len(nref),'extra',extra[:1],'missing',missing[:1]))
    except TO: stats['timeout']+=1
    finally: signal.alarm(0)
print(dict(stats))
