"""Prototype reference model for flat single-crossing designs (calibration only)."""
import itertools, random, json
from math import ceil

# ---------- spec ----------
# factor: {'name','kind':'basic','levels':[(name,w)]}
#         {'name','kind':'derived','win':(type,width,stride,start|None),'deps':[names],'levels':[(name,w)],'table':{argtuple_json: level_index}}
# table maps each argument tuple (flattened: for each dep, for j in width: value at t-(width-1-j)) -> index of accepting level

def fstart(spec, f):
    if f['kind']=='basic': return 0
    ty,w,s,a = f['win']
    if a is not None: return a
    d=w-1
    for dn in f['deps']:
        df=spec['factors'][dn]
        ra=fstart(spec,df) if is_complex(spec,df) else 0
        d=max(d, ra+w-1)
    return d

def is_complex(spec,f):
    if f['kind']=='basic': return False
    ty,w,s,a=f['win']
    if w>1 or s>1 or fstart(spec,f)>0: return True
    return is_complex(spec, spec['factors'][f['deps'][0]])

def applies(spec,f,t):
    if f['kind']=='basic': return True
    ty,w,s,a=f['win']; st=fstart(spec,f)
    return t>=st and (t-st)%s==0

def args_at(spec,f,seq,t):
    ty,w,s,a=f['win']; out=[]
    for dn in f['deps']:
        df=spec['factors'][dn]; ds=fstart(spec,df)
        for j in range(w):
            tt=t-(w-1-j)
            if tt<0 or tt<ds: out.append(None)
            else: out.append(seq[dn][tt])
    return tuple(out)

def derive(spec,f,seq,t):
    a=args_at(spec,f,seq,t)
    idx=f['table'].get(json.dumps(a))
    return idx

def order_factors(spec):
    # basic first, then derived by dependency depth
    names=list(spec['factors'])
    def depth(n):
        f=spec['factors'][n]
        return 0 if f['kind']=='basic' else 1+max(depth(d) for d in f['deps'])
    return sorted(names,key=depth)

def combos_info(spec):
    """returns (allowed combos list [(tuple of level names, weight)], S, excluded_weight)"""
    cr=spec['crossing']; F=spec['factors']
    excl=set((c['factor'],c['level']) for c in spec['constraints'] if c['type']=='Exclude')
    lvls=[F[n]['levels'] for n in cr]
    basics=[n for n in order_factors(spec) if F[n]['kind']=='basic']
    allowed=[]; W=0; X=0
    for combo in itertools.product(*lvls):
        w=1
        for (_,lw) in combo: w*=lw
        W+=w
        names={n:l[0] for n,l in zip(cr,combo)}
        bad=any((n,names[n]) in excl for n in cr)
        if not bad:
            # possible by within-trial (non-complex) definitions? need an assignment of basic factors (not fixed by combo) making all
            # non-complex derived factors in crossing consistent and no excluded non-complex derived level forced
            free=[n for n in basics if n not in names]
            ok=False
            for asg in itertools.product(*[[l[0] for l in F[n]['levels']] for n in free]):
                seq={n:[v] for n,v in zip(free,asg)}
                for n in basics:
                    if n in names: seq[n]=[names[n]]
                if any((n,seq[n][0]) in excl for n in basics): continue
                good=True
                for n in order_factors(spec):
                    f=F[n]
                    if f['kind']=='derived' and not is_complex(spec,f):
                        idx=derive(spec,f,seq,0)
                        if idx is None: good=False;break
                        v=f['levels'][idx][0]; seq[n]=[v]
                        if n in names and names[n]!=v: good=False;break
                        if (n,v) in excl: good=False;break
                if good: ok=True;break
            bad=not ok
        if bad: X+=w
        else: allowed.append((tuple(names[n] for n in cr),w))
    return allowed,W-X,X

def trial_count(spec):
    allowed,S,X=combos_info(spec)
    p=max([fstart(spec,spec['factors'][n]) for n in spec['crossing'] if is_complex(spec,spec['factors'][n])]+[0])
    mt=max([c['trials'] for c in spec['constraints'] if c['type']=='MinimumTrials']+[0])
    T=max(1,mt,p+S)
    return T,p,S,X,allowed

def run_lengths(vals,level):
    runs=[];c=0
    for v in vals:
        if v==level: c+=1
        else:
            if c: runs.append(c)
            c=0
    if c: runs.append(c)
    return runs

def check_constraints(spec,seq,T):
    F=spec['factors']; bad=[]
    for c in spec['constraints']:
        ty=c['type']
        if ty=='MinimumTrials': continue
        f=c['factor']; levels=[c['level']] if c.get('level') is not None else [l[0] for l in F[f]['levels']]
        for lv in levels:
            vals=seq[f]
            if ty=='Exclude':
                if lv in vals: bad.append(c)
            elif ty=='Pin':
                i=c['index']; t=i if i>=0 else T+i
                if not (0<=t<T) or vals[t]!=lv: bad.append(c)
            elif ty=='AtMostKInARow':
                if any(r>c['k'] for r in run_lengths(vals,lv)): bad.append(c)
            elif ty=='AtLeastKInARow':
                if any(r<c['k'] for r in run_lengths(vals,lv)): bad.append(c)
            elif ty=='ExactlyKInARow':
                if any(r!=c['k'] for r in run_lengths(vals,lv)): bad.append(c)
            elif ty=='ExactlyK':
                if sum(1 for v in vals if v==lv)!=c['k']: bad.append(c)
    return bad

def enumerate_valid(spec, cap=20000, node_cap=400000):
    F=spec['factors']; T,p,S,X,allowed=trial_count(spec)
    if X>0 and spec['rcc']: return T,[]
    if S<=0: return T,None
    cw=ceil((T-p)/S) if T-p>0 else 1
    L=S*cw
    allow={c:w for c,w in allowed}
    order=order_factors(spec); basics=[n for n in order if F[n]['kind']=='basic']
    excl=set((c['factor'],c['level']) for c in spec['constraints'] if c['type']=='Exclude')
    out=[]; nodes=[0]
    seq={n:[] for n in order}
    cr=spec['crossing']
    def chunk_ok(t_end, final):
        # check crossing counts for chunks fully/partially inside [p, t_end)
        st=p
        while st<t_end:
            en=min(st+L,T)
            if en>t_end: # incomplete so far: at-most check
                cnt={}
                for t in range(st,t_end):
                    k=tuple(seq[n][t] for n in cr); cnt[k]=cnt.get(k,0)+1
                for k,v in cnt.items():
                    if k not in allow or v>allow[k]*cw: return False
                return True
            cnt={}
            for t in range(st,en):
                k=tuple(seq[n][t] for n in cr); cnt[k]=cnt.get(k,0)+1
            full=(en-st==L)
            for k,v in cnt.items():
                if k not in allow or v>allow[k]*cw: return False
            if full:
                for k,w in allow.items():
                    if cnt.get(k,0)!=w*cw: return False
            st=en
        return True
    def rec(t):
        nodes[0]+=1
        if nodes[0]>node_cap or len(out)>cap: raise OverflowError
        if t==T:
            if not check_constraints(spec,seq,T): out.append({n:list(v) for n,v in seq.items()})
            return
        for asg in itertools.product(*[[l[0] for l in F[n]['levels']] for n in basics]):
            if any((n,v) in excl for n,v in zip(basics,asg)): continue
            for n,v in zip(basics,asg): seq[n].append(v)
            good=True; added=[]
            for n in order:
                f=F[n]
                if f['kind']!='derived': continue
                if applies(spec,f,t):
                    idx=derive(spec,f,seq,t)
                    if idx is None: good=False
                    v=f['levels'][idx][0] if idx is not None else '?'
                else: v=''
                seq[n].append(v); added.append(n)
                if (n,v) in excl: good=False
                if not good: break
            if good and t+1>p: good=chunk_ok(t+1,False)
            if good:
                # cheap prefix pruning for AtMost
                for c in spec['constraints']:
                    if c['type']=='AtMostKInARow':
                        lvs=[c['level']] if c.get('level') is not None else [l[0] for l in F[c['factor']]['levels']]
                        for lv in lvs:
                            if any(r>c['k'] for r in run_lengths(seq[c['factor']],lv)): good=False
            if good: rec(t+1)
            for n in added: seq[n].pop()
            for n in basics: seq[n].pop()
    try: rec(0)
    except OverflowError: return T,None
    return T,out

# ---------- generator ----------
def gen_spec(rng):
    F={}; nb=rng.randint(1,3)
    for i in range(nb):
        nl=rng.randint(2,3)
        F[f"F{i}"]={'name':f"F{i}",'kind':'basic','levels':[(f"{chr(97+i)}{j}", rng.choice([1,1,1,2])) for j in range(nl)]}
    names=list(F)
    nd=rng.choice([0,0,1,1,2])
    for di in range(nd):
        ty=rng.choice(['within','within','transition','window'])
        cand=[n for n in F if not (F[n]['kind']=='derived' and F[n]['win'][2]>1)]
        deps=rng.sample(cand, min(len(cand), rng.randint(1,2)))
        if ty=='within': w,s,a=1,1,None
        elif ty=='transition': w,s,a=2,1,1
        else: w=rng.randint(2,3); s=rng.choice([1,1,2]); a=rng.choice([None,None,0,w])
        nl=rng.randint(2,3)
        f={'name':f"D{di}",'kind':'derived','win':(ty,w,s,a),'deps':deps,'levels':[(f"d{di}{j}", rng.choice([1,1,2])) for j in range(nl)],'table':{}}
        F[f['name']]=f
        spec_tmp={'factors':F}
        # total random table over all arg tuples incl None where possible
        doms=[]
        for dn in deps:
            df=F[dn]; ds=fstart(spec_tmp,df) if df['kind']=='derived' else 0
            for j in range(w):
                dom=[l[0] for l in df['levels']]
                doms.append(dom+[None])
        for tup in itertools.product(*doms):
            f['table'][json.dumps(tup)]=rng.randrange(nl)
    design=list(F)
    crossing=rng.sample(design, rng.randint(1,min(3,len(design))))
    crossing=[n for n in crossing if not (F[n]['kind']=='derived' and F[n]['win'][2]>1)] or [design[0]]
    cons=[]
    for _ in range(rng.choice([0,1,1,2])):
        fn=rng.choice(design); lv=rng.choice(F[fn]['levels'])[0]
        ty=rng.choice(['AtMostKInARow','AtLeastKInARow','ExactlyK','ExactlyKInARow','Exclude','Pin','MinimumTrials'])
        c={'type':ty,'factor':fn,'level':lv}
        if ty in ('AtMostKInARow','AtLeastKInARow','ExactlyK','ExactlyKInARow'): c['k']=rng.randint(1,3)
        if ty=='Pin': c['index']=rng.randint(-3,3)
        if ty=='MinimumTrials': c['trials']=rng.randint(1,7)
        cons.append(c)
    return {'factors':F,'design':design,'crossing':crossing,'constraints':cons,'rcc':rng.random()<0.4}

# ---------- build ----------
def build(spec):
    from sweetpea import Factor, Level, DerivedLevel, WithinTrial, Transition, Window, CrossBlock
    import sweetpea as sp
    objs={}
    for n in order_factors(spec):
        f=spec['factors'][n]
        if f['kind']=='basic':
            objs[n]=Factor(n,[Level(l,w) if w>1 else l for l,w in f['levels']])
        else:
            ty,w,s,a=f['win']; deps=[objs[d] for d in f['deps']]
            lvls=[]
            for li,(ln,lw) in enumerate(f['levels']):
                def pred(*args,li=li,f=f,w=w):
                    if w==1: tup=tuple(args)
                    else:
                        tup=tuple(a[j-(w-1)] for a in args for j in range(w))
                    return f['table'][json.dumps(tup)]==li
                if ty=='within': win=WithinTrial(pred,deps)
                elif ty=='transition': win=Transition(pred,deps)
                else: win=Window(pred,deps,w,s,a)
                lvls.append(DerivedLevel(ln,win,lw))
            objs[n]=Factor(n,lvls)
    cons=[]
    for c in spec['constraints']:
        ty=c['type']
        if ty=='MinimumTrials': cons.append(sp.MinimumTrials(c['trials'])); continue
        tgt=(objs[c['factor']],c['level'])
        if ty=='Exclude': cons.append(sp.Exclude(tgt))
        elif ty=='Pin': cons.append(sp.Pin(c['index'],tgt))
        else: cons.append(getattr(sp,ty)(c['k'],tgt))
    return CrossBlock([objs[n] for n in spec['design']],[objs[n] for n in spec['crossing']],cons,spec['rcc'])
