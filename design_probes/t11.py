import itertools, collections
import pycryptosat
from sweetpea._internal.core.cnf import CNF, Var
def ext(cl, nin, nv, bits):
    """enumerate extensions of input assignment; return list of models (tuples)"""
    s=pycryptosat.Solver()
    for c in cl: s.add_clause(c)
    for i in range(nin): s.add_clause([(i+1) if bits[i] else -(i+1)])
    res=[]
    while True:
        sat,m=s.solve()
        if not sat: break
        mm=tuple(m[1:nv+1]) if len(m)>nv else tuple(m[1:])+(None,)*(nv-len(m)+1)
        res.append(m)
        s.add_clause([-(i) if m[i] else i for i in range(1,len(m))])
        if len(res)>3: break
    return res
stats=collections.Counter()
# pop_count with saturation
for n in range(1,9):
  for sat in range(0,5):
    cnf=CNF(); ins=cnf.get_n_fresh(n)
    try: outs=cnf.pop_count(ins,sat)
    except Exception as e: stats[f'popcount EXC {type(e).__name__}']+=1; continue
    cl=cnf.as_list_of_list_of_ints(); nv=max([abs(l) for c in cl for l in c]+[n])
    for bits in itertools.product([0,1],repeat=n):
        ms=ext(cl,n,nv,bits)
        if len(ms)!=1: stats[f'popcount ext!=1 (n={n},sat={sat},got={len(ms)})']+=1; continue
        m=ms[0]; val=0
        for o in outs: val=val*2+(1 if m[abs(int(o))] else 0)
        cnt=sum(bits)
        if sat==0: ok=(val==cnt)
        else:
            top=2**(sat-1)
            ok=(val==cnt) if cnt<top else (len(outs)>=sat and m[abs(int(outs[0]))]) if len(outs)>=sat else (val==cnt)
        stats['popcount ok' if ok else f'popcount BAD n={n} sat={sat} cnt={cnt} val={val} nout={len(outs)}']+=1
# ripple carry
for w in range(1,5):
    cnf=CNF(); xs=cnf.get_n_fresh(w); ys=cnf.get_n_fresh(w)
    c,ss=cnf.ripple_carry(xs,ys)
    cl=cnf.as_list_of_list_of_ints(); nv=max(abs(l) for cc in cl for l in cc)
    for bits in itertools.product([0,1],repeat=2*w):
        ms=ext(cl,2*w,nv,bits)
        if len(ms)!=1: stats['ripple ext!=1']+=1; continue
        m=ms[0]
        x=int(''.join(map(str,bits[:w])),2); y=int(''.join(map(str,bits[w:])),2)
        val=(1 if m[int(c)] else 0)
        for s_ in reversed(ss): val=val*2+(1 if m[int(s_)] else 0)
        stats['ripple ok' if val==x+y else f'ripple BAD w={w}']+=1
print({k:v for k,v in stats.items()})
