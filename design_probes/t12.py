import itertools, collections
from sweetpea._internal.combinatorics import *
stats=collections.Counter()
# mixed radix
for sizes in itertools.product(range(1,4),repeat=3):
    N=sizes[0]*sizes[1]*sizes[2]
    img={tuple(extract_components(list(sizes),j)) for j in range(N)}
    stats['extract ok' if len(img)==N and all(all(0<=c<s for c,s in zip(t,sizes)) for t in img) else 'extract BAD']+=1
for l in range(0,4):
  for n in range(1,4):
    img={tuple(compute_jth_combination(l,n,j)) for j in range(n**l)}
    stats['comb ok' if img==set(itertools.product(range(n),repeat=l)) else 'comb BAD']+=1
for n in range(1,7):
  for m in range(0,n+1):
    N=n_choose_m(n,m)
    try: img={tuple(sorted(compute_jth_combination_without_replacement(n,m,j))) for j in range(N)}
    except Exception as e: stats[f'cwr EXC {type(e).__name__} n={n} m={m}']+=1; continue
    stats['cwr ok' if img=={tuple(c) for c in itertools.combinations(range(n),m)} else f'cwr BAD n={n} m={m} {len(img)} {N}']+=1
from math import factorial
for n in range(1,6):
  for m in range(0,n+1):
    N=factorial(n)//factorial(n-m)
    img={tuple(compute_jth_permutation_prefix(n,m,j)) for j in range(N)}
    stats['permprefix ok' if img==set(itertools.permutations(range(n),m)) else f'permprefix BAD {n} {m}']+=1
def brute(q,counters,first_n):
    res=set()
    def rec(pre,c):
        if len(pre)==first_n: res.add(tuple(pre)); return
        for i in range(q):
            if c[i]>0:
                c[i]-=1; rec(pre+[i],c); c[i]+=1
    rec([],list(counters)); return res
for q in range(1,4):
  for m in range(1,4):
    for first_n in range(0,q*m+1):
        for variant in ('int','list'):
            moc=m if variant=='int' else [m]*q
            pm=PermutationMemo()
            try:
                N=count_prefixes_of_permutations_with_copies(q,moc,first_n,pm)
                img=[tuple(compute_jth_prefix_of_permutations_with_copies(q,moc,first_n,j,pm)) for j in range(N)]
            except Exception as e:
                stats[f'copies EXC {type(e).__name__} q={q} m={m} n={first_n} {variant}']+=1; continue
            b=brute(q,[m]*q,first_n)
            stats['copies ok' if (len(set(img))==N and set(img)==b) else f'copies BAD q={q} m={m} n={first_n} {variant} N={N} img={len(set(img))} brute={len(b)}']+=1
import random
rng=random.Random(3)
for _ in range(300):
    q=rng.randint(1,4); counters=[rng.randint(1,3) for _ in range(q)]; first_n=rng.randint(0,sum(counters))
    pm=PermutationMemo()
    try:
        N=count_prefixes_of_permutations_with_copies(q,counters,first_n,pm)
        img=[tuple(compute_jth_prefix_of_permutations_with_copies(q,counters,first_n,j,pm)) for j in range(N)]
    except Exception as e:
        stats[f'vcopies EXC {type(e).__name__} {counters} {first_n}']+=1; continue
    b=brute(q,counters,first_n)
    stats['vcopies ok' if (len(set(img))==N and set(img)==b) else f'vcopies BAD {counters} n={first_n} N={N} img={len(set(img))} brute={len(b)}']+=1
print(dict(stats))
