import io, contextlib, warnings
warnings.filterwarnings("ignore")
from sweetpea import *
def q(f,*a,**k):
    buf=io.StringIO()
    with contextlib.redirect_stdout(buf):
        try:
            return f(*a,**k)
        except Exception as e:
            import traceback
            tb=traceback.extract_tb(e.__traceback__)
            return ("EXC", type(e).__name__, str(e)[:200], [(x.filename.split('/')[-1],x.lineno,x.name) for x in tb[-3:]])
def out(f,*a,**k):
    buf=io.StringIO()
    with contextlib.redirect_stdout(buf):
        try: r=f(*a,**k)
        except Exception as e: r=("EXC",type(e).__name__,str(e))
    return r, buf.getvalue()
