from q import *
import math, random, collections, itertools
stats=collections.Counter()
rng=random.Random(1)
for it in range(300):
    width=rng.randint(1,3); stride=rng.randint(1,2); start=rng.choice([None,0,1,width,width+1])
    ctr=[0]; log=[]
    def base():
        ctr[0]+=1; return float(ctr[0])
    def dep(x, w):
        log.append((x,w)); return ('D', x, tuple(sorted(w.items())) if isinstance(w,dict) else w)
    c0=ContinuousFactor("c0",distribution=CustomDistribution(base))
    win=ContinuousFactorWindow([c0],width=width,stride=stride,start=start)
    c1=ContinuousFactor("c1",distribution=CustomDistribution(dep,[c0,win]))
    thr=rng.choice([None, 0.5])
    cons=[]
    col=Factor("col",["r","g","b"][:rng.randint(2,3)])
    mt=rng.randint(1,6)
    r=q(lambda: synthesize_trials(CrossBlock([col,c0,c1],[col],[MinimumTrials(mt)]),2,IterateSATGen))
    if isinstance(r,tuple): stats['EXC:'+r[1]+':'+r[2][:40]]+=1; continue
    st=width-1 if start is None else start
    for e in r:
        T=len(e['col']); v=e['c0']
        ok=len(v)==T and len(e['c1'])==T
        for t in range(T):
            tag,x,w=e['c1'][t]; w=dict(w)
            ok&=(x==v[t])
            for k in range(width):
                exp = float('nan')
                if t>=st and (t-st)%stride==0 and t-k>=0: exp=v[t-k]
                got=w[-k]
                ok&= (math.isnan(got) and math.isnan(exp)) or got==exp
        stats['ok' if ok else f'BAD w={width} s={stride} start={start}']+=1
        if not ok and stats[f'BAD w={width} s={stride} start={start}']<=1: print(width,stride,start,e)
print(dict(stats))
