from q import *
import sys, json, random, signal, collections
from refproto import *
class TO(Exception): pass
def alarm(*a): raise TO()
signal.signal(signal.SIGALRM, alarm)
rng=random.Random(int(sys.argv[1])); stats=collections.Counter(); shown=collections.Counter()
def brief(spec): return json.dumps({'cross':spec['crossing'],'cons':spec['constraints'],'rcc':spec['rcc'],'F':{n:{k:v for k,v in f.items() if k!='table'} for n,f in spec['factors'].items()}})
def weighted_uncrossed_under_derived(spec):
    F=spec['factors']
    return any(f['kind']=='basic' and any(w>1 for _,w in f['levels']) and n not in spec['crossing'] for n,f in F.items())
for it in range(int(sys.argv[2])):
    spec=gen_spec(rng)
    if weighted_uncrossed_under_derived(spec): stats['skip_desugar_region']+=1; continue
    signal.alarm(40)
    try:
        try: b=build(spec)
        except Exception: stats['ctor']+=1; continue
        T,ref=enumerate_valid(spec,cap=200)
        if ref is None or not ref or T!=b.trials_per_sample(): stats['skip']+=1; continue
        refset=set(json.dumps(e,sort_keys=True) for e in ref)
        # valid ones
        for e in ref[:40]:
            r=q(sample_mismatch_experiment,b,{k:list(v) for k,v in e.items()})
            if isinstance(r,tuple): k='valid->EXC:'+r[1]+':'+r[3][-1][2]
            elif r=={}: k='valid->ok'
            else: k='valid->REJECTED:'+','.join(sorted(r.keys()))+':'+','.join(str(x).split(',')[0] for x in r.get('constraints',[]))
            stats[k]+=1
            if not k.endswith('ok') and shown[k]<2: shown[k]+=1; print("##",k,brief(spec),e,r)
        # perturbed
        for e in ref[:15]:
            for _ in range(6):
                m={k:list(v) for k,v in e.items()}
                f=rng.choice(list(m)); t=rng.randrange(T)
                opts=[l[0] for l in spec['factors'][f]['levels'] if l[0]!=m[f][t]]
                if spec['factors'][f]['kind']=='derived' and rng.random()<0.2: opts.append('')
                if not opts: continue
                if m[f][t]=='' and rng.random()<0.5: continue
                m[f][t]=rng.choice(opts)
                if json.dumps(m,sort_keys=True) in refset: continue
                # invalid per R (ref is complete since len(ref)<cap)
                if len(ref)>=200: continue
                r=q(sample_mismatch_experiment,b,m)
                if isinstance(r,tuple): k='invalid->EXC:'+r[1]+':'+r[3][-1][2]
                elif r=={}:
                    kind='derived' if spec['factors'][f]['kind']=='derived' else 'basic'
                    k='invalid->ACCEPTED:changed_'+kind
                else: k='invalid->rejected'
                stats[k]+=1
                if not k.endswith('rejected') and shown[k]<2: shown[k]+=1; print("##",k,brief(spec),"orig",e,"mut",f,t,m[f][t])
    except TO: stats['timeout']+=1
    finally: signal.alarm(0)
print(dict(stats))
