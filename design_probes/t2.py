from q import *
import faulthandler, json, random as R
from fractions import Fraction
faulthandler.dump_traceback_later(200, exit=True)
from sweetpea._internal.sampling_strategy.random import RandomGen, UCSolutionEnumerator
class Cut(Exception): pass
class Chooser:
    def __init__(self): self.prefix=[]; self.trace=[]
    def start(self, prefix): self.prefix=list(prefix); self.trace=[]
    def randrange(self, lo, hi=None, step=1):
        if hi is None: lo,hi=0,lo
        n=hi-lo; i=len(self.trace)
        v=self.prefix[i] if i<len(self.prefix) else 0
        assert 0<=v<n, (v,n,i)
        self.trace.append((v,n)); return lo+v
def explore(block, cap=40000):
    ch=Chooser(); orig=R.randrange; og=UCSolutionEnumerator.generate_random_samples
    ep=[0]
    def g(self,*a,**k):
        ep[0]+=1
        if ep[0]>1: raise Cut()
        return og(self,*a,**k)
    leaves=[]; prefix=[]
    R.randrange=ch.randrange; UCSolutionEnumerator.generate_random_samples=g
    try:
        while len(leaves)<cap:
            ch.start(prefix); ep[0]=0
            try:
                res=RandomGen.sample(block,1); out=json.dumps(res.samples,sort_keys=True)
            except Cut: out='REJ'
            tr=list(ch.trace)
            p=Fraction(1)
            for v,n in tr: p/=n
            leaves.append((tuple(v for v,n in tr),p,out))
            i=len(tr)-1
            while i>=0 and tr[i][0]+1>=tr[i][1]: i-=1
            if i<0: break
            prefix=[v for v,n in tr[:i]]+[tr[i][0]+1]
    finally:
        R.randrange=orig; UCSolutionEnumerator.generate_random_samples=og
    return leaves
import io,contextlib
a = Factor("a", ["a1","a2"]); u = Factor("u", ["u1","u2","u3"])
d = Factor("d",[DerivedLevel("y",WithinTrial(lambda u: u=="u1",[u])), ElseLevel("n")])
import time
for cons in ([], [MinimumTrials(5)], [MinimumTrials(6)]):
    b = CrossBlock([a,u,d],[a,d],cons,False)
    t=time.time()
    with contextlib.redirect_stdout(io.StringIO()):
        lv=explore(b)
    acc={}
    for s,p,o in lv:
        if o!='REJ': acc[o]=acc.get(o,0)+p
    tot=sum(acc.values()); probs={}
    for v in acc.values(): probs[v/tot]=probs.get(v/tot,0)+1
    print([c.trials for c in cons], "T",b.trials_per_sample(),"leaves",len(lv),"rej",sum(1 for x in lv if x[2]=='REJ'),"seqs",len(acc),"prob classes",sorted(probs.items())[:6],"sumP",sum(p for _,p,_ in lv), round(time.time()-t,1),"s")
