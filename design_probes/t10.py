import itertools, random, sys, collections
import pycryptosat
from sweetpea._internal.logic import *
from sweetpea._internal.core.cnf import CNF, Var
def ev(f, a):
    if isinstance(f,int): return a[abs(f)] if f>0 else not a[abs(f)]
    if isinstance(f,Not): return not ev(f.c,a)
    if isinstance(f,And): return all(ev(x,a) for x in f.input_list)
    if isinstance(f,Or): return any(ev(x,a) for x in f.input_list)
    if isinstance(f,If): return (not ev(f.p,a)) or ev(f.q,a)
    if isinstance(f,Iff): return ev(f.p,a)==ev(f.q,a)
    raise TypeError(f)
def vars_of(f):
    if isinstance(f,int): return {abs(f)}
    if isinstance(f,Not): return vars_of(f.c)
    if isinstance(f,(And,Or)): return set().union(*[vars_of(x) for x in f.input_list]) if f.input_list else set()
    return vars_of(f.p)|vars_of(f.q)
def gen(rng,d,nv):
    if d==0 or rng.random()<0.25:
        v=rng.randint(1,nv); return v if rng.random()<0.7 else -v
    k=rng.choice(['not','and','or','if','iff','and','or'])
    if k=='not': return Not(gen(rng,d-1,nv))
    if k in('and','or'):
        n=rng.choice([0,1,2,2,3]); xs=[gen(rng,d-1,nv) for _ in range(n)]
        if xs and rng.random()<0.3: xs.append(xs[0])
        return (And if k=='and' else Or)(xs)
    return (If if k=='if' else Iff)(gen(rng,d-1,nv),gen(rng,d-1,nv))
def models(clauses, nv_orig, nv_total):
    """map: assignment over 1..nv_orig -> number of extensions"""
    res=collections.Counter()
    for bits in itertools.product([False,True],repeat=nv_total):
        a={i+1:bits[i] for i in range(nv_total)}
        if all(any((a[abs(l)] if l>0 else not a[abs(l)]) for l in c) for c in clauses): res[bits[:nv_orig]]+=1
    return res
rng=random.Random(1); stats=collections.Counter()
NV=3
for it in range(3000):
    f=gen(rng,rng.randint(0,3),NV)
    for name,fn in (('tseitin',to_cnf_tseitin),('naive',to_cnf_naive),('switching',to_cnf_switching)):
        try:
            cnf,nxt=fn(f,NV+1)
            cl=cnf_to_json([cnf])
        except Exception as e:
            stats[name+':EXC:'+type(e).__name__]+=1
            if stats[name+':EXC:'+type(e).__name__]<=2: print(name,'EXC',type(e).__name__,e,f)
            continue
        used=max([abs(l) for c in cl for l in c]+[NV])
        if used>=nxt and used>NV: stats[name+':fresh_range_bad']+=1
        tot=max(used,nxt-1)
        if tot>14: stats[name+':skip_big']+=1; continue
        m=models(cl,NV,tot)
        ok=True
        for bits in itertools.product([False,True],repeat=NV):
            a={i+1:bits[i] for i in range(NV)}
            want=ev(f,a); got=m.get(bits,0)
            free=2**(tot-used) if tot>used else 1
            if want and got==0 or (not want and got>0): ok=False; kind='SEM'
            elif want and name=='tseitin' and got!=free: ok=False; kind='UNIQ'
            elif want and name=='naive' and used>NV: ok=False; kind='NEWVARS'
        stats[name+(':ok' if ok else ':BAD:'+kind)]+=1
        if not ok and stats[name+':BAD:'+kind]<=2: print(name,'BAD',kind,f,cl,nxt)
print(dict(stats))
