from q import *
import sys, json, random, itertools, collections, signal
from refproto2 import con_ok, run_lengths
import sweetpea as sp
class TO(Exception): pass
def alarm(*a): raise TO()
signal.signal(signal.SIGALRM, alarm)
rng=random.Random(int(sys.argv[1])); stats=collections.Counter(); shown=collections.Counter()
def perms_multiset(levels):  # levels [(name,w)] -> all distinct sequences realising the crossing of a single factor set
    pass
def cross_seqs(F, names, cons, T=None):
    """all valid sequences (dict name->list) for a flat single crossing block over basic factors `design` with crossing names"""
    design=list(F)
    S=1
    for n in names: S*=sum(w for _,w in F[n]['levels'])
    mt=max([c['trials'] for c in cons if c['type']=='MinimumTrials']+[0]); T=max(S,mt,1)
    from math import ceil
    cw=ceil(T/S); out=[]
    lv=[F[n]['levels'] for n in names]
    wt={tuple(l[0] for l in combo): __import__('math').prod(l[1] for l in combo) for combo in itertools.product(*lv)}
    for tup in itertools.product(*[itertools.product(*[[l[0] for l in F[n]['levels']] for n in design]) for _ in range(T)]):
        seq={n:[tr[i] for tr in tup] for i,n in enumerate(design)}
        cnt=collections.Counter(tuple(seq[n][t] for n in names) for t in range(T))
        if T==S*cw:
            if any(cnt.get(k,0)!=w*cw for k,w in wt.items()): continue
        else:
            if any(v>wt[k]*cw for k,v in cnt.items()): continue
        if all(con_ok(c,seq[c['factor']],T) for c in cons if c['type']!='MinimumTrials'): out.append(seq)
    return T,out
def mk(F,objs,names,cons):
    r=[]
    for c in cons:
        if c['type']=='MinimumTrials': r.append(sp.MinimumTrials(c['trials'])); continue
        tgt=(objs[c['factor']],c['level'])
        r.append(sp.Pin(c['index'],tgt) if c['type']=='Pin' else getattr(sp,c['type'])(c['k'],tgt))
    return sp.CrossBlock([objs[n] for n in F],[objs[n] for n in names],r)
for it in range(int(sys.argv[2])):
    Fo={f"O{i}":{'levels':[(f"o{i}{j}",rng.choice([1,1,2])) for j in range(rng.randint(2,2))]} for i in range(1)}
    Fi={f"I{i}":{'levels':[(f"i{i}{j}",rng.choice([1,1,1,2])) for j in range(rng.randint(2,3))]} for i in range(rng.randint(1,2))}
    inames=rng.sample(list(Fi),rng.randint(1,len(Fi)))
    icons=[]
    if rng.random()<0.7:
        f=rng.choice(list(Fi)); l=rng.choice(Fi[f]['levels'])[0]; ty=rng.choice(['AtMostKInARow','ExactlyK','Pin','AtLeastKInARow'])
        c={'type':ty,'factor':f,'level':l}; c.update({'index':rng.randint(-2,2)} if ty=='Pin' else {'k':rng.randint(1,2)}); icons.append(c)
    seqflag=rng.random()<0.4
    signal.alarm(60)
    try:
        To,so=cross_seqs(Fo,list(Fo),[])
        if seqflag:
            L=[l[0] for l in Fo['O0']['levels']]
            so=[s for s in so if all(s['O0'][t]==L[t%len(L)] for t in range(To))]
        Ti,si=cross_seqs(Fi,inames,icons)
        T=To*Ti
        if T>8 or len(so)*len(si)**To>3000: stats['big']+=1; continue
        ref=set()
        for o in so:
            for groups in itertools.product(si,repeat=To):
                seq={n:[v for v in o[n] for _ in range(Ti)] for n in Fo}
                for n in Fi: seq[n]=[v for g in groups for v in g[n]]
                ref.add(json.dumps(seq,sort_keys=True))
        objs={n:sp.Factor(n,[sp.Level(l,w) if w>1 else l for l,w in f['levels']]) for n,f in {**Fo,**Fi}.items()}
        def blk():
            objs={n:sp.Factor(n,[sp.Level(l,w) if w>1 else l for l,w in f['levels']]) for n,f in {**Fo,**Fi}.items()}
            outer=sp.CrossBlock([objs[n] for n in Fo],[objs[n] for n in Fo],[sp.Sequential(objs['O0'])] if seqflag else [])
            inner=mk(Fi,objs,inames,icons)
            return sp.Nest(outer,inner)
        nb=q(blk)
        if isinstance(nb,tuple): stats['ctor:'+nb[1]]+=1; print("ctor",nb, Fo,Fi,inames,icons,seqflag); continue
        if nb.trials_per_sample()!=T: stats['T_DIFF']+=1; print("T_DIFF",nb.trials_per_sample(),T,Fo,Fi,inames,icons); continue
        r1=q(synthesize_trials,nb,4000,IterateSATGen)
        if isinstance(r1,tuple): stats['SAT_exc:'+r1[1]]+=1; print(r1,Fo,Fi,inames,icons); continue
        got=set(json.dumps(e,sort_keys=True) for e in r1)
        if got==ref: stats['SAT_agree'+('_empty' if not ref else '')]+=1
        else:
            stats['SAT_DIFF']+=1
            if shown['d']<4: shown['d']+=1; print("DIFF",len(got),len(ref),list(got-ref)[:1],list(ref-got)[:1],Fo,Fi,inames,icons,seqflag)
        nb2=blk(); r2=q(synthesize_trials,nb2,4000,RandomGen)
        if isinstance(r2,tuple): stats['RND_exc:'+r2[1]+':'+r2[3][-1][2]]+=1
        else:
            got2=set(json.dumps(e,sort_keys=True) for e in r2); stats['RND_agree' if got2==ref else 'RND_DIFF']+=1
            if got2!=ref and shown['r']<3: shown['r']+=1; print("RDIFF",len(got2),len(ref),list(got2-ref)[:1],list(ref-got2)[:1],Fo,Fi,inames,icons,seqflag)
    except TO: stats['timeout']+=1
    finally: signal.alarm(0)
print(dict(stats))
