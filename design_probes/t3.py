exec(open('t2.py').read().split("import io,contextlib")[0])
import io,contextlib,time
import sweetpea._internal.sampling_strategy.random as rmod
_cache={}
_origE=rmod.UCSolutionEnumerator
def factory(block):
    k=id(block)
    if k not in _cache: _cache[k]=_origE(block)
    return _cache[k]
# keep class attrs reachable for explore()'s patching: patch methods on the real class, swap the module name to the factory
rmod.UCSolutionEnumerator=factory
a = Factor("a", ["a1","a2"]); u = Factor("u", ["u1","u2","u3"])
d = Factor("d",[DerivedLevel("y",WithinTrial(lambda u: u=="u1",[u])), ElseLevel("n")])
for cons in ([MinimumTrials(5)], [MinimumTrials(6)]):
    b = CrossBlock([a,u,d],[a,d],cons,False)
    t=time.time()
    with contextlib.redirect_stdout(io.StringIO()):
        lv=explore(b, cap=200000)
    acc={}
    for s,p,o in lv:
        if o!='REJ': acc[o]=acc.get(o,0)+p
    tot=sum(acc.values()); probs={}
    for v in acc.values(): probs[v/tot]=probs.get(v/tot,0)+1
    e=_cache[id(b)]
    print([c.trials for c in cons], "T",b.trials_per_sample(),"leaves",len(lv),"rej",sum(1 for x in lv if x[2]=='REJ'),"seqs",len(acc),"prob classes",sorted(probs.items())[:6],"sumP",sum(p for _,p,_ in lv), "keys", e.preamble_solution_count(), e.solution_count(), e.leftover_solution_count(), round(time.time()-t,1),"s")
