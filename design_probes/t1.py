from q import *
import faulthandler, glob, os, tempfile
faulthandler.dump_traceback_later(60, exit=True)
import pycryptosat, pycmsgen, pyunigen
log=[]
class PS:
    def __init__(self,*a,**k):
        self._s=_orig_cs(*a,**k); self.clauses=[]
    def add_clause(self,c): self.clauses.append(list(c)); return self._s.add_clause(c)
    def solve(self,*a,**k):
        files=glob.glob("*.cnf"); txt=open(files[0]).read() if files else None
        r=self._s.solve(*a,**k)
        log.append(("cms", len(self.clauses), len(files), (txt or "")[:40].replace("\n","|"), r[0], len(r[1]) if r[1] else None))
        return r
_orig_cs=pycryptosat.Solver; pycryptosat.Solver=PS
class PG:
    def __init__(self,*a,**k): self._s=_orig_cg(*a,**k); self.n=0; self.kw=k
    def add_clause(self,c): self.n+=1; return self._s.add_clause(c)
    def solve(self,*a,**k):
        r=self._s.solve(*a,**k); log.append(("cmsgen", self.n, self.kw, r[0])); return r
_orig_cg=pycmsgen.Solver; pycmsgen.Solver=PG
class PU:
    def __init__(self,*a,**k): self._s=_orig_u(*a,**k); self.n=0
    def add_clause(self,c): self.n+=1; return self._s.add_clause(c)
    def sample(self,*a,**k):
        r=self._s.sample(*a,**k); log.append(("unigen", self.n, {kk:(v if kk!='sampling_set' else (min(v),max(v),len(v))) for kk,v in k.items()}, r[0], r[1], len(r[2]))); return r
_orig_u=pyunigen.Sampler; pyunigen.Sampler=PU
d=tempfile.mkdtemp(); os.chdir(d)
c = Factor("c", ["r","b","g"]); t=Factor("t",["x","y"])
b = CrossBlock([c,t],[c],[AtMostKInARow(1,(t,"x"))])
print(len(q(synthesize_trials,b,4,IterateSATGen)))
print(len(q(synthesize_trials,b,4,CMSGen)))
print(len(q(synthesize_trials,b,4,UniGen)))
for l in log: print(l)
print(os.listdir(d))
