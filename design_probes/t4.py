from q import *
import sys, json, random, signal, time, collections, faulthandler
from refproto import *
class TO(Exception): pass
def alarm(*a): raise TO()
signal.signal(signal.SIGALRM, alarm)
seed=int(sys.argv[1]); n=int(sys.argv[2])
rng=random.Random(seed); stats=collections.Counter(); shown=collections.Counter()
def norm(r): return sorted(set(json.dumps(e,sort_keys=True) for e in r))
def show(tag, spec, extra):
    shown[tag]+=1
    if shown[tag]<=2:
        s={k:v for k,v in spec.items() if k!='factors'}
        s['factors']={n:{k:v for k,v in f.items() if k!='table'} for n,f in spec['factors'].items()}
        print("##",tag,json.dumps(s)); print("   ",extra)
for i in range(n):
    spec=gen_spec(rng)
    signal.alarm(30)
    try:
        try:
            b=build(spec)
        except Exception as e:
            stats['ctor:'+type(e).__name__]+=1; continue
        try:
            Tref,p,S,X,allowed=trial_count(spec)
        except Exception as e:
            stats['ref_exc']+=1; show('ref_exc',spec,repr(e)); continue
        Timpl=b.trials_per_sample()
        if Timpl!=Tref:
            stats['T_DIFF']+=1; show('T_DIFF',spec,(Timpl,Tref,p,S,X)); continue
        if Tref>7: stats['big']+=1; continue
        T,ref=enumerate_valid(spec,cap=300)
        if ref is None: stats['ref_toolarge']+=1; continue
        r1=q(synthesize_trials,b,2500,IterateSATGen)
        b2=build(spec)
        r2=q(synthesize_trials,b2,2500,RandomGen)
        nref=norm(ref)
        for tag,r in (('SAT',r1),('RND',r2)):
            if isinstance(r,tuple):
                stats[tag+'_exc:'+r[1]+':'+r[3][-1][2]]+=1; show(tag+'_exc:'+r[1]+':'+r[3][-1][2],spec,r); continue
            nr=norm(r)
            if nr==nref: stats[tag+'_agree'+('_empty' if not nref else '')]+=1
            else:
                extra=[x for x in nr if x not in set(nref)]; missing=[x for x in nref if x not in set(nr)]
                kind=tag+('_EXTRA' if extra else '')+('_MISSING' if missing else '')
                stats[kind]+=1; show(kind,spec,(len(nr),len(nref),'extra',extra[:1],'missing',missing[:1], sorted(b.errors)))
    except TO:
        stats['timeout']+=1
    finally:
        signal.alarm(0)
print(dict(stats))
