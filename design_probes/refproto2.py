"""Prototype R for combinators: flat-general form = crossings with (names, start q, chunk L, per-combo count) and
constraints with explicit windows. Basic factors (+ optional transition factor) only. Calibration only."""
import itertools, json, random
from math import ceil

def run_lengths(vals, level):
    runs=[];c=0
    for v in vals:
        if v==level: c+=1
        else:
            if c: runs.append(c)
            c=0
    if c: runs.append(c)
    return runs

def con_ok(c, vals, T):
    """vals = factor values restricted to window; T = window length"""
    ty=c['type']; lv=c['level']
    if ty=='Pin':
        i=c['index']; t=i if i>=0 else T+i
        return 0<=t<T and vals[t]==lv
    if ty=='AtMostKInARow': return all(r<=c['k'] for r in run_lengths(vals,lv))
    if ty=='AtLeastKInARow': return all(r>=c['k'] for r in run_lengths(vals,lv))
    if ty=='ExactlyKInARow': return all(r==c['k'] for r in run_lengths(vals,lv))
    if ty=='ExactlyK': return sum(1 for v in vals if v==lv)==c['k']
    if ty=='Exclude': return lv not in vals
    raise ValueError(ty)

# ---- block tree -> flat-general ----
# Cross: {'op':'cross','design':[..],'crossings':[[..]],'cons':[..],'mode':'weight|repeat|equal','align':'equal|post|parallel','ctor':'CrossBlock|MultiCrossBlock'}
# Repeat: {'op':'repeat','block':..., 'cons':[..]}   Merge: {'op':'merge','blocks':[..],'cons':[..],'mode':..}   Nest: {'op':'nest','outer':..,'inner':..,'cons':[..]}

def fstart(F,n):
    f=F[n]
    return 1 if f['kind']=='transition' else 0

def csize(F,names):
    s=1
    for n in names: s*=sum(w for _,w in F[n]['levels'])
    return s

def info_cross(F,b):
    """returns dict(T, crossings=[dict(names,S,p,cw)], windows geometry (T,p0))"""
    mt=max([c['trials'] for c in b['cons'] if c['type']=='MinimumTrials']+[0])
    cr=[]
    for names in b['crossings']:
        S=csize(F,names); p=max([fstart(F,n) for n in names]+[0]); cr.append({'names':names,'S':S,'p':p,'cw':1})
    if b['align']=='post':
        P=max(c['p'] for c in cr); T0=P+max(c['S'] for c in cr)
    else:
        T0=max(c['p']+c['S'] for c in cr)
    T=max(1,mt,T0)
    if b['mode']!='repeat':
        for c in cr: c['cw']=ceil((T-c['p'])/c['S'])
    return T,cr

def flatten(F,b):
    """-> dict(T, design, crossings=[dict(names,S,p,cw,q)], cons=[(c, (Tb,pb) or None)], mt, undecided:str|None)"""
    if b['op']=='cross':
        T,cr=info_cross(F,b)
        P=max(c['p'] for c in cr)
        for c in cr: c['q']=P if b['align']=='post' else c['p']
        und=None
        if b['align']=='equal' and len(set(c['p'] for c in cr))>1: und='ctor-error-expected'
        if b['mode']=='equal' and any(c['cw']!=1 for c in cr): und='ctor-error-expected'
        if b['align']=='post' and b['mode']=='weight' and len(set(c['p'] for c in cr))>1: und='post+weight'
        geo=(T,cr[0]['p'])
        return {'T':T,'design':list(b['design']),'crossings':cr,'cons':[(c,geo) for c in b['cons'] if c['type']!='MinimumTrials'],
                'mt':max([c['trials'] for c in b['cons'] if c['type']=='MinimumTrials']+[0]),'und':und,'geo':geo}
    if b['op']=='repeat':
        fb=flatten(F,b['block'])
        mt=max([fb['mt']]+[c['trials'] for c in b['cons'] if c['type']=='MinimumTrials'])
        T=max([mt,1]+[c['p']+c['S'] for c in fb['crossings']])
        und=fb['und']
        Tb,pb=fb['geo']
        if (T-pb)%(Tb-pb)!=0: und=und or 'partial-window'
        for c in fb['crossings']:
            if (T-c['p'])%(c['S']*c['cw'])!=0: und=und or 'partial-chunk-under-repeat'
        cons=list(fb['cons'])+[(c,None) for c in b['cons'] if c['type']!='MinimumTrials']
        return {'T':T,'design':fb['design'],'crossings':fb['crossings'],'cons':cons,'mt':mt,'und':und,'geo':(T,pb)}
    if b['op']=='merge':
        fbs=[flatten(F,x) for x in b['blocks']]
        design=[]; cr=[]; cons=[(c,None) for c in b['cons'] if c['type']!='MinimumTrials']; und=None
        for fb in fbs:
            for n in fb['design']:
                if n not in design: design.append(n)
            cr+= [dict(c) for c in fb['crossings']]; cons+=fb['cons']; und=und or fb['und']
        mt=max([fb['mt'] for fb in fbs]+[c['trials'] for c in b['cons'] if c['type']=='MinimumTrials'])
        T=max([mt,1]+[c['p']+c['S'] for c in cr])
        if b['mode']!='repeat':
            for c in cr: c['cw']=ceil((T-c['p'])/c['S'])
            if any(fb['cons'] for fb in fbs): und=und or 'weight-mode-with-block-constraints'
            if b['mode']=='equal' and any(c['cw']!=1 for c in cr): und='ctor-error-expected'
        else:
            for fb in fbs:
                Tb,pb=fb['geo']
                if fb['cons'] and (T-pb)%(Tb-pb)!=0: und=und or 'partial-window'
        if len(set(c['p'] for c in cr))>1: und=und or 'ctor-error-expected'
        return {'T':T,'design':design,'crossings':cr,'cons':cons,'mt':mt,'und':und,'geo':(T,cr[0]['p'])}
    raise ValueError(b['op'])

def enumerate_flat(F, fl, cap=3000, node_cap=600000):
    T=fl['T']; design=fl['design']
    basics=[n for n in design if F[n]['kind']=='basic']; trans=[n for n in design if F[n]['kind']=='transition']
    seq={n:[] for n in design}; out=[]; nodes=[0]
    def windows(geo):
        if geo is None: return [(0,T)]
        Tb,pb=geo; res=[]; st=0
        while st<T-pb:
            res.append((st,st+Tb)); st+=Tb-pb
        return res
    def cross_ok(t_end):
        for c in fl['crossings']:
            L=c['S']*c['cw']; st=c['q']
            lv=[F[n]['levels'] for n in c['names']]
            wt={tuple(l[0] for l in combo): (lambda ws: __import__('functools').reduce(lambda a,b:a*b,ws,1))([l[1] for l in combo]) for combo in itertools.product(*lv)}
            while st<t_end:
                en=min(st+L,T); upto=min(en,t_end)
                cnt={}
                for t in range(st,upto):
                    k=tuple(seq[n][t] for n in c['names'])
                    if '' in k: return False
                    cnt[k]=cnt.get(k,0)+1
                for k,v in cnt.items():
                    if v>wt[k]*c['cw']: return False
                if upto==en and en-st==L:
                    for k,w in wt.items():
                        if cnt.get(k,0)!=w*c['cw']: return False
                st=en
        return True
    def final_ok():
        for c,geo in fl['cons']:
            for (a,b) in windows(geo):
                if b>T: return None
                if not con_ok(c, seq[c['factor']][a:b], b-a): return False
        return True
    def rec(t):
        nodes[0]+=1
        if nodes[0]>node_cap or len(out)>cap: raise OverflowError
        if t==T:
            r=final_ok()
            if r is None: raise KeyError('window beyond T')
            if r: out.append({n:list(v) for n,v in seq.items()})
            return
        for asg in itertools.product(*[[l[0] for l in F[n]['levels']] for n in basics]):
            for n,v in zip(basics,asg): seq[n].append(v)
            for n in trans:
                f=F[n]
                if t<1: seq[n].append('')
                else:
                    d=f['deps'][0]; seq[n].append(f['levels'][f['table'][json.dumps([seq[d][t-1],seq[d][t]])]][0])
            if cross_ok(t+1): rec(t+1)
            for n in basics+trans: seq[n].pop()
    try: rec(0)
    except OverflowError: return None
    return out

# ---- build with sweetpea ----
def build(F, b, objs=None):
    import sweetpea as sp
    if objs is None:
        objs={}
        for n,f in F.items():
            if f['kind']=='basic': objs[n]=sp.Factor(n,[sp.Level(l,w) if w>1 else l for l,w in f['levels']])
        for n,f in F.items():
            if f['kind']=='transition':
                d=objs[f['deps'][0]]; lv=[]
                for li,(ln,lw) in enumerate(f['levels']):
                    lv.append(sp.DerivedLevel(ln, sp.Transition(lambda a,li=li,f=f: f['table'][json.dumps([a[-1],a[0]])]==li,[d]), lw))
                objs[n]=sp.Factor(n,lv)
    def mkcons(cs):
        r=[]
        for c in cs:
            ty=c['type']
            if ty=='MinimumTrials': r.append(sp.MinimumTrials(c['trials'])); continue
            tgt=(objs[c['factor']],c['level'])
            if ty=='Exclude': r.append(sp.Exclude(tgt))
            elif ty=='Pin': r.append(sp.Pin(c['index'],tgt))
            else: r.append(getattr(sp,ty)(c['k'],tgt))
        return r
    modes={'weight':sp.RepeatMode.WEIGHT,'repeat':sp.RepeatMode.REPEAT,'equal':sp.RepeatMode.EQUAL}
    aligns={'equal':sp.AlignmentMode.EQUAL_PREAMBLE,'post':sp.AlignmentMode.POST_PREAMBLE,'parallel':sp.AlignmentMode.PARALLEL_START}
    if b['op']=='cross':
        d=[objs[n] for n in b['design']]
        if b['ctor']=='CrossBlock': return sp.CrossBlock(d,[objs[n] for n in b['crossings'][0]],mkcons(b['cons']))
        return sp.MultiCrossBlock(d,[[objs[n] for n in c] for c in b['crossings']],mkcons(b['cons']),True,modes[b['mode']],aligns[b['align']])
    if b['op']=='repeat': return sp.Repeat(build(F,b['block'],objs),mkcons(b['cons']))
    if b['op']=='merge': return sp.Merge([build(F,x,objs) for x in b['blocks']],mkcons(b['cons']),modes[b['mode']])
    raise ValueError

# ---- generator ----
def gen(rng):
    F={}
    nb=rng.randint(2,3)
    for i in range(nb):
        nl=rng.randint(2,3)
        F[f"F{i}"]={'kind':'basic','levels':[(f"{chr(97+i)}{j}",rng.choice([1,1,1,2])) for j in range(nl)]}
    if rng.random()<0.35:
        d=rng.choice(list(F)); nl=2
        names=[l[0] for l in F[d]['levels']]
        F["TR"]={'kind':'transition','deps':[d],'levels':[("t0",1),("t1",1)],'table':{json.dumps([x,y]):rng.randrange(2) for x in names for y in names}}
    names=list(F)
    def rcons(pool,n):
        cs=[]
        for _ in range(n):
            f=rng.choice(pool); lv=rng.choice(F[f]['levels'])[0]
            ty=rng.choice(['AtMostKInARow','AtMostKInARow','ExactlyK','Pin','AtLeastKInARow','ExactlyKInARow'])
            c={'type':ty,'factor':f,'level':lv}
            if ty=='Pin': c['index']=rng.randint(-2,2)
            else: c['k']=rng.randint(1,2)
            cs.append(c)
        return cs
    def rcross(pool=None,ctor='CrossBlock'):
        pool=pool or names
        k=rng.randint(1,min(2,len(pool)))
        return {'op':'cross','design':list(names),'crossings':[rng.sample(pool,k)],'cons':rcons(names,rng.choice([0,1,1])),'mode':'weight','align':'equal','ctor':'CrossBlock'}
    kind=rng.choice(['repeat','repeat','merge','merge','mcb','mcb'])
    if kind=='repeat':
        b=rcross()
        if rng.random()<0.3: b['cons'].append({'type':'MinimumTrials','trials':rng.randint(2,6)})
        T,cr=info_cross(F,b)
        per=T-cr[0]['p']
        n=rng.choice([per*2+cr[0]['p'], per*2+cr[0]['p'], per*3+cr[0]['p'], rng.randint(2,9)])
        tree={'op':'repeat','block':b,'cons':[{'type':'MinimumTrials','trials':n}]+rcons(names,rng.choice([0,1]))}
    elif kind=='merge':
        pool=list(names); rng.shuffle(pool)
        a=pool[:max(1,len(pool)//2)]; c=pool[max(1,len(pool)//2):]
        b1=rcross(a); b2=rcross(c)
        tree={'op':'merge','blocks':[b1,b2],'cons':rcons(names,rng.choice([0,1])),'mode':rng.choice(['repeat','repeat','weight'])}
    else:
        pool=list(names); rng.shuffle(pool)
        k=rng.randint(2,min(3,len(pool)))
        crossings=[[pool[i]] for i in range(k)]
        if len(pool)>k and rng.random()<0.5: crossings[0].append(pool[k])
        tree={'op':'cross','design':list(names),'crossings':crossings,'cons':rcons(names,rng.choice([0,1,1])),'mode':rng.choice(['weight','repeat','equal']),'align':rng.choice(['equal','post','parallel']),'ctor':'MultiCrossBlock'}
    return F,tree
