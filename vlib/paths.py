"""Checkout-relative paths (the framework may run from /verif or from a `vp run` snapshot)."""
import os

VERIF = os.path.dirname(os.path.dirname(os.path.abspath(__file__)))
REPO = os.environ.get("SWEETPEA_REPO", "/repo")
PYTHON = os.environ.get("VERIF_PYTHON", "/venv/bin/python")
WORK = os.path.join(VERIF, ".work")
EVIDENCE = os.path.join(VERIF, "evidence")
REPLAY = os.path.join(VERIF, "replay")
KNOWN_FINDINGS = os.path.join(VERIF, "known_findings.json")
