"""Check driver: shards cases over subprocesses, applies the verdict discipline of DESIGN.md §3.

A property module (vlib/props/cNN.py) provides

    ID, RULE, ASSUMPTIONS, MINIMUMS[tier] -> {counter: minimum}
    cases(tier, seed) -> iterable of JSON-able case dicts
    run_case(case)    -> result dict:
        {'nontrivial': bool, 'dkey': str|None, 'cls': str, 'violations': [ {kind,msg,...} ],
         'inconclusive': None|str, 'counters': {name:int}, 'sample': {...}|None, 'notes': [...]}
    optional: CASE_TIMEOUT (s), finalize(results, tier) -> {'coverage': {...}, 'violations': [...]}

Exit codes: 0 held / 1 violation (prints VIOLATION line) / 2 inconclusive (prints INCONCLUSIVE line).
"""
import argparse
import hashlib
import importlib
import json
import os
import shutil
import subprocess
import sys
import time
from concurrent.futures import ThreadPoolExecutor

from . import paths, findings

NSHARDS = int(os.environ.get("VERIF_JOBS", "16"))


def canon(obj):
    return json.dumps(obj, sort_keys=True, separators=(",", ":"), default=str)


def case_id(case):
    return hashlib.sha1(canon(case).encode()).hexdigest()[:16]


def load_prop(pid):
    return importlib.import_module("vlib.props." + pid.lower())


def _env():
    env = dict(os.environ)
    env["PYTHONPATH"] = paths.REPO + os.pathsep + paths.VERIF
    env["PYTHONHASHSEED"] = "0"
    env["PYTHONDONTWRITEBYTECODE"] = "1"
    env["SWEETPEA_PY_VERIF"] = "1"
    env.pop("SWEETPEA_CHECK_SYNTHESIZED", None)
    return env


def run_shards(pid, cases, timeout_per_case, label):
    """Run cases in NSHARDS subprocesses; returns list of (case, result)."""
    os.makedirs(paths.WORK, exist_ok=True)
    base = os.path.join(paths.WORK, "%s-%s-%d" % (pid, label, os.getpid()))
    shutil.rmtree(base, ignore_errors=True)
    os.makedirs(base)
    n = max(1, min(NSHARDS, len(cases)))
    shards = [cases[i::n] for i in range(n)]
    results = {}

    def one(i):
        d = os.path.join(base, "s%d" % i)
        os.makedirs(d)
        inp = os.path.join(d, "in.json")
        outp = os.path.join(d, "out.jsonl")
        with open(inp, "w") as f:
            json.dump(shards[i], f)
        budget = 60 + sum(c.get("_timeout", timeout_per_case) for c in shards[i])
        cmd = [paths.PYTHON, "-B", "-m", "vlib.shard", pid, inp, outp]
        scratch = os.path.join(d, "cwd")
        os.makedirs(scratch)
        try:
            p = subprocess.run(cmd, cwd=scratch, env=_env(), timeout=budget,
                               stdout=subprocess.PIPE, stderr=subprocess.PIPE)
            rc, err = p.returncode, p.stderr.decode(errors="replace")[-2000:]
        except subprocess.TimeoutExpired:
            rc, err = -9, "shard wall-clock budget exceeded"
        got = {}
        if os.path.exists(outp):
            with open(outp) as f:
                for line in f:
                    try:
                        r = json.loads(line)
                        got[r["cid"]] = r
                    except Exception:
                        pass
        for c in shards[i]:
            cid = c["_cid"]
            if cid in got:
                results[cid] = got[cid]
            else:
                results[cid] = {"cid": cid, "nontrivial": False, "violations": [],
                                "inconclusive": "shard died rc=%s: %s" % (rc, err[-300:]),
                                "counters": {}, "cls": c.get("cls", "?")}

    with ThreadPoolExecutor(max_workers=n) as ex:
        list(ex.map(one, range(n)))
    shutil.rmtree(base, ignore_errors=True)
    return [(c, results[c["_cid"]]) for c in cases]


def strip(case):
    return {k: v for k, v in case.items() if not k.startswith("_")}


def main(argv=None):
    ap = argparse.ArgumentParser()
    ap.add_argument("prop")
    ap.add_argument("--tier", default=os.environ.get("VERIF_TIER", "quick"), choices=["quick", "thorough"])
    ap.add_argument("--seed", type=int, default=int(os.environ.get("VERIF_SEED", "0") or 0))
    ap.add_argument("--replay")
    ap.add_argument("--no-evidence", action="store_true")
    args = ap.parse_args(argv)
    pid = args.prop.upper()
    mod = load_prop(pid)
    t0 = time.time()
    timeout = getattr(mod, "CASE_TIMEOUT", 60)

    if args.replay:
        with open(args.replay) as f:
            rp = json.load(f)
        case = rp["case"]
        case["_cid"] = case_id(strip(case))
        [(c, r)] = run_shards(pid, [case], timeout, "replay")
        print(json.dumps(r, indent=1, default=str)[:6000])
        vs = r.get("violations", [])
        new = [v for v in vs if findings.classify(pid, strip(c), v) is None]
        if new:
            print("VIOLATION property=%s replay=%s" % (pid, args.replay))
            return 1
        if r.get("inconclusive"):
            print("INCONCLUSIVE property=%s reason=%s" % (pid, r["inconclusive"]))
            return 2
        print("replay: no (unlisted) violation")
        return 0

    shutil.rmtree(os.path.join(paths.REPLAY, pid), ignore_errors=True)
    # ---- workload: random/enumerated cases + witnesses of known findings
    cases = []
    seen = set()
    for c in mod.cases(args.tier, args.seed):
        cid = case_id(strip(c))
        if cid in seen:
            continue
        seen.add(cid)
        c["_cid"] = cid
        cases.append(c)
    only = os.environ.get("VERIF_ONLY_CLS")
    if only:
        # development aid: run only the cases whose class matches; never writes evidence
        import re
        cases = [c for c in cases if re.search(only, str(c.get("cls", "")))]
        args.no_evidence = True
    kf = findings.for_property(pid)
    wit = []
    for f in kf:
        for w in f.get("witnesses", []):
            c = dict(w)
            c["_cid"] = "W-" + f["id"] + "-" + case_id(strip(c))
            c["_witness_of"] = f["id"]
            wit.append(c)
    pairs = run_shards(pid, cases + wit, timeout, args.tier)

    # ---- aggregate
    counters = {}
    classes = {}
    dkeys = set()
    inconcl = []
    new_viol = []
    absorbed = {}
    witness_alive = {}
    samples = []
    viol_samples = []
    for c, r in pairs:
        wof = c.get("_witness_of")
        vs = r.get("violations", [])
        if wof:
            alive = any(findings.classify(pid, strip(c), v) == wof for v in vs)
            witness_alive[wof] = witness_alive.get(wof, False) or alive
            for v in vs:
                fid = findings.classify(pid, strip(c), v)
                if fid is None:
                    new_viol.append((c, r, v))
            continue
        for k, v in r.get("counters", {}).items():
            counters[k] = counters.get(k, 0) + v
        cl = r.get("cls", c.get("cls", "-"))
        classes[cl] = classes.get(cl, 0) + 1
        if r.get("inconclusive"):
            inconcl.append((c["_cid"], r["inconclusive"]))
        if r.get("nontrivial"):
            dkeys.add(r.get("dkey") or c["_cid"])
        for v in vs:
            fid = findings.classify(pid, strip(c), v)
            if fid is None:
                new_viol.append((c, r, v))
            else:
                a = absorbed.setdefault(fid, {"count": 0, "examples": []})
                a["count"] += 1
                if len(a["examples"]) < 2:
                    a["examples"].append({"case": strip(c), "violation": v})
        if r.get("sample") is not None and len(samples) < 4 and r.get("nontrivial"):
            samples.append(r["sample"])
    extra_cov = {}
    if hasattr(mod, "finalize"):
        fin = mod.finalize([(strip(c), r) for c, r in pairs if not c.get("_witness_of")], args.tier) or {}
        extra_cov = fin.get("coverage", {})
        for v in fin.get("violations", []):
            fid = findings.classify(pid, v.get("case", {}), v)
            if fid is None:
                new_viol.append((v.get("case", {"aggregate": True}), {"aggregate": True}, v))
            else:
                a = absorbed.setdefault(fid, {"count": 0, "examples": []})
                a["count"] += 1
    if not samples:
        samples = [r.get("sample") or strip(c) for c, r in pairs[:2]]

    evaluations = len(cases)
    counters["evaluations"] = evaluations
    counters["distinct_nontrivial"] = len(dkeys)

    # ---- verdict
    rc = 0
    lines = []
    for f in kf:
        if witness_alive.get(f["id"]) or absorbed.get(f["id"]):
            lines.append("KNOWN-FINDING: property=%s %s [%s]" % (pid, f["what"], f["id"]))
    replay_paths = []
    if new_viol:
        rc = 1
        os.makedirs(os.path.join(paths.REPLAY, pid), exist_ok=True)
        shown = set()
        for c, r, v in new_viol:
            cid = c.get("_cid", "aggregate")
            if cid in shown:
                continue
            shown.add(cid)
            rp = os.path.join(paths.REPLAY, pid, "%s.json" % cid)
            with open(rp, "w") as f:
                json.dump({"property": pid, "tier": args.tier, "seed": args.seed,
                           "case": strip(c) if isinstance(c, dict) else c,
                           "violations": r.get("violations", [v]) if isinstance(r, dict) else [v]},
                          f, indent=1, default=str)
            replay_paths.append(rp)
            if len(viol_samples) < 5:
                viol_samples.append({"case": strip(c), "violation": v})
            if len(shown) <= 10:
                lines.append("VIOLATION property=%s replay=%s" % (pid, rp))
                lines.append("  -> %s: %s" % (v.get("kind"), str(v.get("msg"))[:300]))
    mins = getattr(mod, "MINIMUMS", {}).get(args.tier, {})
    short = {k: (counters.get(k, 0), m) for k, m in mins.items() if counters.get(k, 0) < m}
    too_many_inconcl = len(inconcl) > max(3, getattr(mod, "MAX_INCONCLUSIVE_FRACTION", 0.25) * max(1, evaluations))
    if rc == 0 and (short or too_many_inconcl):
        rc = 2
        lines.append("INCONCLUSIVE property=%s reason=%s" % (
            pid, ("minimums not met %s" % short) if short else ("%d cases inconclusive" % len(inconcl))))

    wall = time.time() - t0
    if not args.no_evidence:
        cov = {
            "evaluations": evaluations,
            "distinct_nontrivial": len(dkeys),
            "rule": mod.RULE,
            "samples": samples[:4],
            "exhaustive": bool(getattr(mod, "EXHAUSTIVE", {}).get(args.tier, False)),
            "per_class": classes,
            "counters": counters,
            "minimums": mins,
            "inconclusive_cases": len(inconcl),
            "inconclusive_examples": inconcl[:5],
            "known_findings": {
                f["id"]: {"what": f["what"], "witness_still_fails": bool(witness_alive.get(f["id"])),
                          "random_cases_absorbed": absorbed.get(f["id"], {}).get("count", 0),
                          "absorbed_examples": absorbed.get(f["id"], {}).get("examples", [])[:1]}
                for f in kf},
            "verdict": {0: "held", 1: "violated", 2: "inconclusive"}[rc],
            "violation_samples": viol_samples,
        }
        cov.update(extra_cov)
        ev = {"property_id": pid, "tier": args.tier, "seed": args.seed,
              "level": getattr(mod, "LEVEL", "exploration"), "coverage": cov,
              "assumptions": list(getattr(mod, "ASSUMPTIONS", [])),
              "wall_s": round(wall, 2), "violations": len(new_viol)}
        os.makedirs(paths.EVIDENCE, exist_ok=True)
        with open(os.path.join(paths.EVIDENCE, pid + ".json"), "w") as f:
            json.dump(ev, f, indent=1, default=str)
    for ln in lines:
        print(ln)
    print("%s tier=%s seed=%d cases=%d nontrivial_distinct=%d new_violations=%d inconclusive=%d wall=%.1fs verdict=%s"
          % (pid, args.tier, args.seed, evaluations, len(dkeys), len(new_viol), len(inconcl), wall,
             {0: "held", 1: "VIOLATED", 2: "inconclusive"}[rc]))
    keyc = {k: counters[k] for k in sorted(counters) if k not in ("evaluations", "distinct_nontrivial")}
    print("  observed:", json.dumps(keyc)[:1500])
    return rc


if __name__ == "__main__":
    sys.exit(main())
