"""Runtime-monitoring framework for the sweetpea-py properties (see /verif/DESIGN.md)."""
