"""Independent SAT-side helpers: solver wrapper on pycryptosat, model enumeration, strict DIMACS/OPB parsers."""
import re

import pycryptosat

_RealSolver = pycryptosat.Solver  # captured before any tap replaces it


def clauses_of(cnf):
    """CNF object (sweetpea core) -> list of lists of int."""
    return [[int(v) for v in cl] for cl in cnf]


class Sat:
    """Incremental solver over a fixed clause list."""

    def __init__(self, clauses, nvars=None):
        self.s = _RealSolver()
        self.nvars = nvars or max([abs(l) for c in clauses for l in c] + [1])
        self.unsat = False
        self.s.add_clause([self.nvars, -self.nvars])  # declare the variable range (tautology)
        for c in clauses:
            if len(c) == 0:
                self.unsat = True
            else:
                self.s.add_clause(c)

    def add(self, clause):
        top = max([abs(a) for a in clause] + [0])
        if top > self.nvars:
            self.nvars = top
        if len(clause) == 0:
            self.unsat = True
        else:
            self.s.add_clause(clause)

    def solve(self, assumptions=()):
        if self.unsat:
            return None
        top = max([abs(a) for a in assumptions] + [0])
        if top > self.nvars:
            self.nvars = top
            self.s.add_clause([top, -top])
        ok, model = self.s.solve(list(assumptions))
        if not ok:
            return None
        return model  # model[v] is True/False/None, index 0 unused


def lits_of_model(model, upto):
    return [v if model[v] else -v for v in range(1, upto + 1)]


def enumerate_projected(clauses, project_vars, cap, nvars=None):
    """All assignments of project_vars extendable to a model. Returns (list of tuples of lits, complete?)."""
    s = Sat(clauses, nvars)
    out = []
    while len(out) < cap:
        m = s.solve()
        if m is None:
            return out, True
        lits = tuple(v if m[v] else -v for v in project_vars)
        out.append(lits)
        if not lits:
            return out, True
        s.add([-l for l in lits])
    return out, s.solve() is None


def count_models(clauses, over_vars, cap):
    return enumerate_projected(clauses, over_vars, cap)


# ---------------------------------------------------------------- DIMACS

def parse_dimacs_strict(text):
    """Independent strict DIMACS(+c ind) parser. Returns dict(nvars,nclauses,clauses,ind,problems)."""
    problems = []
    nvars = nclauses = None
    clauses = []
    ind = []
    ind_lines = []
    for ln, raw in enumerate(text.split("\n")):
        line = raw.strip()
        if not line:
            continue
        if line.startswith("p "):
            parts = line.split()
            if nvars is not None:
                problems.append("second problem line at %d" % ln)
            if len(parts) != 4 or parts[1] != "cnf":
                problems.append("bad problem line %r" % line)
                continue
            nvars, nclauses = int(parts[2]), int(parts[3])
        elif line.startswith("c ind"):
            toks = line.split()[2:]
            if not toks or toks[-1] != "0":
                problems.append("c ind line not 0-terminated: %r" % line)
            vals = [int(t) for t in toks[:-1]] if toks and toks[-1] == "0" else [int(t) for t in toks]
            ind_lines.append(vals)
            ind.extend(vals)
        elif line.startswith("c"):
            continue
        else:
            toks = line.split()
            try:
                vals = [int(t) for t in toks]
            except ValueError:
                problems.append("non-integer token in clause line %r" % line)
                continue
            if vals[-1] != 0:
                problems.append("clause line not 0-terminated: %r" % line)
            elif 0 in vals[:-1]:
                problems.append("0 inside clause line: %r" % line)
            else:
                clauses.append(vals[:-1])
    if nvars is None:
        problems.append("no problem line")
    return {"nvars": nvars, "nclauses": nclauses, "clauses": clauses, "ind": ind, "ind_lines": ind_lines,
            "problems": problems}


# ---------------------------------------------------------------- OPB

_TERM = re.compile(r"([+-]\d+)\s+v(\d+)")


def parse_opb(text):
    """Parse the subset of OPB the library writes: lines `+1 v3 -1 v4 >= 0 ;` (several per line allowed)."""
    cons = []
    problems = []
    for chunk in text.replace("\n", " ").split(";"):
        c = chunk.strip()
        if not c or c.startswith("*"):
            continue
        m = re.match(r"^((?:[+-]\d+\s+v\d+\s*)*)(>=|<=|=)\s*(-?\d+)$", c)
        if not m:
            problems.append("unparsable constraint %r" % c)
            continue
        terms = [(int(a), int(b)) for a, b in _TERM.findall(m.group(1))]
        rebuilt = " ".join("%+d v%d" % t for t in terms)
        if rebuilt.split() != m.group(1).split():
            problems.append("term syntax %r" % c)
        cons.append((terms, m.group(2), int(m.group(3))))
    return cons, problems


def eval_opb(cons, assignment):
    """assignment: dict var -> bool. True iff all constraints hold."""
    for terms, op, k in cons:
        s = sum(coef for coef, v in terms if assignment.get(v, False))
        if op == ">=" and not s >= k:
            return False
        if op == "<=" and not s <= k:
            return False
        if op == "=" and not s == k:
            return False
    return True
