"""Shared pieces of the design-driven checks (C01-C09, C14-C19, C23-C26)."""
import collections
import json

from . import gen, observe as O, ref, spec as S


def spec_cases(tier, seed, classes, n_quick, n_thorough, tag):
    n = n_thorough if tier == "thorough" else n_quick
    out = []
    for cls, sp in gen.stream(seed, n, classes, tag):
        out.append({"cls": cls, "spec": sp})
    return out


def small(spec):
    """spec without truth tables, for evidence samples"""
    return {"block": spec["block"],
            "factors": {n: {k: v for k, v in f.items() if k not in ("table", "table2")}
                        for n, f in spec["factors"].items()}}


class Prepared:
    pass


def prepare(case, strict=True):
    """-> Prepared(spec, fl, block, pool, ctor_exc, result) ; result is set when the case ends early."""
    p = Prepared()
    p.spec = case["spec"]
    p.fl = ref.analyze(p.spec)
    p.block, p.pool, p.ctor_exc = O.construct(p.spec, strict)
    p.result = None
    counters = {}
    if p.ctor_exc:
        counters["rejected_by_constructor"] = 1
        if p.fl.ctor_err:
            counters["rejection_predicted_by_R"] = 1
        p.result = {"nontrivial": False, "violations": [], "counters": counters, "cls": case.get("cls", "-"),
                    "notes": ["constructor: %s %s" % (p.ctor_exc["exc"], p.ctor_exc["msg"][:80])]}
        return p
    if p.fl.ctor_err:
        counters["accepted_but_R_expects_refusal"] = 1
    # what kinds of designs the monitor actually saw (evidence)
    for ct in sorted({c["type"] for c in S.all_constraints(p.spec["block"])}):
        counters["designs_with_" + ct] = 1
    ops = sorted({b["op"] if b["op"] != "cross" else b.get("ctor", "CrossBlock") for b in S.walk_blocks(p.spec["block"])})
    for o in ops:
        counters["designs_with_" + o] = 1
    if any(f["kind"] == "derived" and S.is_complex(p.spec, n) for n, f in p.spec["factors"].items()):
        counters["designs_with_complex_window"] = counters.get("designs_with_complex_window", 0) or 1
    if any(w > 1 for f in p.spec["factors"].values() for _, w in f["levels"]):
        counters["designs_with_weights"] = 1
    p.counters = counters
    p.user = S.tree_design(p.spec["block"])
    return p


def user_view(p, seq):
    return {k: seq[k] for k in p.user if k in seq}


def ref_counter(p, cap=600, node_cap=250000):
    """R's solution multiset by printed sequence (value = number of distinct solutions printing so), or None."""
    fl = p.fl
    if fl.ctor_err or fl.und_T or fl.und or fl.T is None:
        return None
    rs = ref.enumerate_valid(p.spec, fl, cap=cap, node_cap=node_cap)
    if rs is None:
        return None
    want = collections.Counter()
    for s in rs:
        want[O.seq_key(user_view(p, s))] += ref.multiplicity(p.spec, fl, s)
    if sum(want.values()) > cap:
        return None
    return want


def seq_counter(seqs):
    return collections.Counter(O.seq_key(s) for s in seqs)


def check_valid(p, seq):
    """-> (reasons, decided?) ; decided False means only the necessary conditions were checkable."""
    fl = p.fl
    if fl.ctor_err or fl.und_T or fl.T is None:
        return [], False
    if fl.und:
        return ref.necessary_only(p.spec, fl, seq), False
    return ref.valid(p.spec, fl, seq), True


def exc_violation(err, strat, kind="exception", **extra):
    v = {"kind": kind, "strategy": strat, "exc": err["exc"], "func": err["func"], "file": err["file"],
         "in_predicate": err.get("in_predicate", False),
         "msg": "%s raised %s in %s (%s:%s): %s" % (strat, err["exc"], err["func"], err["file"], err["line"], err["msg"][:160])}
    v.update(extra)
    return v


def invalid_violation(strat, seq, reasons, **extra):
    r0 = reasons[0]
    tag = "other"
    for key, t in (("entries, documented trial count", "length"), ("derived factor", "derivation"),
                   ("crossing:", "crossing"), ("constraint violated", "constraint"), ("not a level", "level"),
                   ("missing", "keys"), ("unexpected keys", "keys"), ("excluded level", "exclude"),
                   ("no valid sequence", "empty-design")):
        if key in r0:
            tag = t
            break
    ctype = None
    if tag == "constraint":
        for t in ("Pin", "AtMostKInARow", "AtLeastKInARow", "ExactlyKInARow", "ExactlyK", "Exclude", "Sequential"):
            if "'type': '%s'" % t in r0:
                ctype = t
    v = {"kind": "invalid_sequence", "strategy": strat, "reason_class": tag, "constraint_type": ctype,
         "msg": "%s returned a sequence that is not valid: %s ; sequence=%s" % (strat, "; ".join(reasons[:3])[:400],
                                                                               json.dumps(seq)[:400])}
    v.update(extra)
    return v


# ------------------------------------------------------------------ running strategies with the right guard

class SoftTimeout(BaseException):
    pass


def run_strategy(spec, strat, n, timeout=25, strict=True):
    """Fresh build + synthesize_trials. Pure-Python strategies run in-process under an interval timer, strategies
    that enter native sampling code (UniGen, UniformGen, SMGen) run in a forked child with a hard limit.
    -> (sequences|None, excinfo|None, status) ; status in ok | timeout | died | ctor"""
    import signal
    if strat in ("UniGen", "UniformGen", "SMGen"):
        return O.synth_guarded(spec, n, strat, timeout, strict)
    b, pool, e = O.construct(spec, strict)
    if e:
        return None, e, "ctor"

    def on_alarm(signum, frame):
        raise SoftTimeout()
    old = signal.signal(signal.SIGVTALRM, on_alarm)
    signal.setitimer(signal.ITIMER_VIRTUAL, timeout)
    try:
        r, err, out = O.synth(b, n, strat)
        return r, err, "ok"
    except SoftTimeout:
        return None, None, "timeout"
    finally:
        signal.setitimer(signal.ITIMER_VIRTUAL, 0)
        signal.signal(signal.SIGVTALRM, old)


def call_budgeted(timeout, fn, *a):
    """O.quiet(fn, *a) under a CPU-time budget (pure-Python callee). -> (result, excinfo, status ok|timeout)"""
    import signal

    def on_alarm(signum, frame):
        raise SoftTimeout()
    old = signal.signal(signal.SIGVTALRM, on_alarm)
    signal.setitimer(signal.ITIMER_VIRTUAL, timeout)
    try:
        r, err, out = O.quiet(fn, *a)
        return r, err, "ok"
    except SoftTimeout:
        return None, None, "timeout"
    finally:
        signal.setitimer(signal.ITIMER_VIRTUAL, 0)
        signal.signal(signal.SIGVTALRM, old)


def exhaust(spec, strat, cap, timeout=25):
    """Ask for cap+1 sequences. -> (sequences|None, excinfo|None, status) ; status 'too_big' when more than cap."""
    r, err, st = run_strategy(spec, strat, cap + 1, timeout)
    if st == "ok" and r is not None and len(r) > cap:
        return r, None, "too_big"
    return r, err, st
