"""Design predicates that key known findings (DESIGN.md §3.2). Each states the *necessary* condition of one
defect mechanism as a pure function of the case (which carries the spec) and the violation."""
import itertools
import json

from . import ref, spec as S


def _spec(case):
    if case.get("cspec"):
        return case["cspec"]["base"]
    return case.get("spec") or case.get("spec_a")


def _flat(case):
    sp = _spec(case)
    try:
        return ref.analyze(sp)
    except Exception:
        return None


# M1 ------------------------------------------------------------------------------------------------
def joint_impossible_combo(case, v=None):
    """Some crossing combination can occur in no trial, yet passes the per-level test the library applies when
    it sizes the crossing (no excluded level in it; every crossed within-trial derived level is produced by
    *some* choice of its arguments that agrees with the crossed levels it reads directly, all other arguments
    free and not required to be consistent with each other): the combination is impossible only *jointly*,
    e.g. two crossed derived factors over the same uncrossed factor, or through a chain of derived factors."""
    sp = _spec(case)
    fl = _flat(case)
    if fl is None or not fl.crossings:
        return False
    F = sp["factors"]
    for cr in fl.crossings:
        names = cr["names"]
        for combo in itertools.product(*[S.level_names(sp, n) for n in names]):
            if combo in cr["allowed"]:
                continue
            d = dict(zip(names, combo))
            if any((n, d[n]) in fl.excl for n in names):
                continue
            locally_bad = False
            for n in names:
                f = F[n]
                if f["kind"] == "derived" and not S.is_complex(sp, n):
                    li = S.level_names(sp, n).index(d[n])
                    doms = [[d[dep]] if dep in d else S.level_names(sp, dep) for dep in f["deps"]]
                    if not any(f["table"].get(S.akey(list(a))) == li for a in itertools.product(*doms)):
                        locally_bad = True
            if not locally_bad:
                return True
    return False


def joint_impossible_rcc_partial_chunk(case, v=None):
    """joint_impossible_combo on a block that requires a complete crossing (so no sequence is valid), where some
    crossing never gets a full chunk (trial count after the preamble below crossing size x crossing weight, i.e. a
    MinimumTrials that is not a multiple of the crossing size): only the 'at most' half of the crossing is encoded
    for a partial chunk, so the missing combination is never asked for."""
    fl = _flat(case)
    if fl is None or not fl.crossings or not fl.rcc or not fl.empty or fl.T is None:
        return False
    if not joint_impossible_combo(case, v):
        return False
    return any(fl.T - cr["q"] * cr["sustain"] < cr["S"] * cr["cw"] * cr["sustain"] for cr in fl.crossings)


def post_preamble_uncrossed_late_start(case, v=None):
    """some (sub-)block is aligned POST_PREAMBLE and its design lists a complex-window derived factor that is in no
    crossing and starts later than every crossed one: the library takes that start as the common preamble of all
    crossings but does not add it to the trial count"""
    sp = _spec(case)
    for t in S.walk_blocks(sp["block"]):
        try:
            fl = ref._node(sp, t)
        except Exception:
            continue
        if fl is None or fl.ctor_err or not fl.crossings or fl.align != "post":
            continue
        p_crossed = max(c["p"] for c in fl.crossings)
        p_design = max([S.fstart(sp, n) for n in fl.design if S.is_complex(sp, n)] + [0])
        if p_design > p_crossed:
            return True
    return False


def sustained_complex_over_unsustained_source(case, v=None):
    """a Nest holds a complex-window derived factor constant over the inner run (it is crossed in the outer block)
    while one of the basic factors it is computed from is not held constant (not crossed in the outer block)"""
    sp = _spec(case)
    for t in S.walk_blocks(sp["block"]):
        if t["op"] != "nest":
            continue
        try:
            fl = ref._node(sp, t)
        except Exception:
            continue
        if fl is None or fl.ctor_err or not fl.crossings:
            continue
        sus = {}
        for cr in fl.crossings:
            for n in cr["names"]:
                sus[n] = max(sus.get(n, 1), cr["sustain"])
        for n, k in sus.items():
            if k > 1 and sp["factors"][n]["kind"] == "derived" and S.is_complex(sp, n):
                if any(sus.get(r, 1) != k for r in S.basic_roots(sp, n)):
                    return True
    return False


# M2 ------------------------------------------------------------------------------------------------
def pin_on_inapplicable_trial(case, v=None):
    sp = _spec(case)
    fl = _flat(case)
    if fl is None or fl.T is None:
        return False
    for c in fl.cons:
        cc = c["c"]
        if cc["type"] != "Pin" or sp["factors"][cc["factor"]]["kind"] != "derived":
            continue
        Tb, pb = c["geo"]
        i = cc["index"]
        t = i if i >= 0 else Tb + i
        if 0 <= t < Tb:
            for (a, b) in ref.windows(fl.T // c["unit"], c["geo"]):
                if not S.applies(sp, cc["factor"], a + t):
                    return True
    return False


# M3 ------------------------------------------------------------------------------------------------
def atleast_tail(case, v=None):
    """AtLeastKInARow with k >= 3 on a window of at least k+2 trials: a run starting in the last k-1 trials
    is not forbidden by the encoding."""
    sp = _spec(case)
    fl = _flat(case)
    if fl is None or fl.T is None:
        return False
    for c in fl.cons:
        cc = c["c"]
        if cc["type"] == "AtLeastKInARow" and cc["k"] >= 3:
            n = sum(1 for t in range(c["geo"][0]) if S.applies(sp, cc["factor"], t))
            if n >= cc["k"] + 2:
                return True
    return False


# M4 ------------------------------------------------------------------------------------------------
def derived_over_complex(case, v=None):
    """Some derived factor depends on a complex-window derived factor."""
    sp = _spec(case)
    for n, f in sp["factors"].items():
        if f["kind"] == "derived" and any(S.is_complex(sp, d) for d in f["deps"]):
            return True
    return False


# M5 ------------------------------------------------------------------------------------------------
def window_wider_than_trials(case, v=None):
    sp = _spec(case)
    fl = _flat(case)
    if fl is None or fl.T is None:
        return False
    return any(f["kind"] == "derived" and f["win"][1] > fl.T for f in sp["factors"].values())


# M6 ------------------------------------------------------------------------------------------------
def crossed_derived_over_uncrossed_derived(case, v=None):
    sp = _spec(case)
    F = sp["factors"]
    for cr in S.tree_crossings(sp["block"]):
        for n in cr:
            f = F[n]
            if f["kind"] == "derived" and not S.is_complex(sp, n):
                for d in f["deps"]:
                    if F[d]["kind"] == "derived" and d not in cr:
                        return True
    return False


# M7 ------------------------------------------------------------------------------------------------
def runlength_on_stride(case, v=None):
    sp = _spec(case)
    return any(c["type"] in ("AtMostKInARow", "AtLeastKInARow", "ExactlyKInARow") and c.get("factor")
               and S.stride(sp, c["factor"]) > 1 for c in S.all_constraints(sp["block"]))


# M8 ------------------------------------------------------------------------------------------------
def partial_window(case, v=None):
    fl = _flat(case)
    return bool(fl is not None and fl.und and "partial last repetition" in fl.und)


def has_weighted_uncrossed(case, v=None):
    """some weighted basic factor is not in EVERY crossing: its copies are distinct solutions that print alike
    (Level documentation)"""
    sp = _spec(case)
    crossings = [c for c in S.tree_crossings(sp["block"]) if c]
    return any(f["kind"] == "basic" and any(w > 1 for _, w in f["levels"]) and
               not (crossings and all(n in c for c in crossings))
               for n, f in sp["factors"].items() if n in S.tree_design(sp["block"]))


def exclude_source_of_crossed_derived(case, v=None):
    """An Exclude on a basic level that feeds a within-trial derived factor in a crossing the basic factor is
    not part of (the documentation does not say whether the crossing shrinks)."""
    sp = _spec(case)
    F = sp["factors"]
    excl = [(c["factor"], c["level"]) for c in S.all_constraints(sp["block"]) if c["type"] == "Exclude"]
    for cr in S.tree_crossings(sp["block"]):
        for n in cr:
            if F[n]["kind"] == "derived":
                for (ef, el) in excl:
                    if ef not in cr and ef in S.basic_roots(sp, n):
                        return True
    return False


# M9 ------------------------------------------------------------------------------------------------
def shared_weighted_uncrossed_in_subblock(case, v=None):
    if case.get("spec_b") is not None and "spec" not in case:
        return any(_shared_wu({"spec": case[k]}) for k in ("spec_a", "spec_b"))
    return _shared_wu(case)


def _shared_wu(case, v=None):
    """A Merge/Nest/Repeat tree in which some sub-block has a weighted basic factor in its design but not in every
    one of its crossings (so that sub-block desugars the factor on its own; the combined design then holds the original and
    the desugared factors under one name)."""
    sp = _spec(case)
    F = sp["factors"]
    tree = sp["block"]
    if tree["op"] == "cross":
        return False
    for b in S.walk_blocks(tree):
        if b["op"] != "cross":
            continue
        cs = [c for c in b["crossings"] if c]
        for n in b["design"]:
            f = F[n]
            # the sub-block desugars a weighted factor that is not in every one of its crossings
            if f["kind"] == "basic" and any(w > 1 for _, w in f["levels"]) and not (cs and all(n in c for c in cs)):
                return True
    return False


# M10 -----------------------------------------------------------------------------------------------
def crossed_derived_over_weighted_uncrossed(case, v=None):
    """A crossed within-trial derived factor reads (directly) a weighted basic factor that is outside the
    crossing (that factor is desugared into a hidden factor RandomGen's counting does not know)."""
    sp = _spec(case)
    F = sp["factors"]
    for cr in S.tree_crossings(sp["block"]):
        for n in cr:
            f = F[n]
            if f["kind"] == "derived" and not S.is_complex(sp, n):
                for d in f["deps"]:
                    if F[d]["kind"] == "basic" and d not in cr and any(w > 1 for _, w in F[d]["levels"]):
                        return True
    return False


# C26 -----------------------------------------------------------------------------------------------
def c26_atleast_tail(case, v=None):
    """AtLeastKInARow with k >= 3 over a window of at least k+2 trials, and the sampler only returned *extra*
    sequences (a too-short run that starts in the last k-1 trials of the window)."""
    c = case.get("c") or {}
    if c.get("type") != "AtLeastKInARow" or c.get("k", 0) < 3:
        return False
    if v is not None and v.get("n_missing", 0) != 0:
        return False
    span = case["TB"] if (v or {}).get("kind") == "scope_block" else case["T"]
    return span >= c["k"] + 2


# C05 -----------------------------------------------------------------------------------------------
def c05_sources_and_partial_round(case, v=None):
    """A crossed within-trial derived factor has a basic source outside the crossing (so crossing combinations can
    have different numbers of completions) and the sequence contains a leftover round or a weighted crossing (so
    RandomGen draws the completions per trial, with a range that depends on the permutation drawn before)."""
    sp = _spec(case)
    if v is not None and not (v.get("leftover", 0) > 0 or v.get("weighted")):
        return False
    F = sp["factors"]
    for cr in S.tree_crossings(sp["block"]):
        for n in cr:
            if F[n]["kind"] == "derived" and not S.is_complex(sp, n) and (S.basic_roots(sp, n) - set(cr)):
                return True
    return False


# C25 -----------------------------------------------------------------------------------------------
def nest_inner_partial_chunk(case, v=None):
    """A Nest whose inner block ends in a partial crossing chunk (its trial count, e.g. through MinimumTrials, is
    not a multiple of crossing size x crossing weight): the library keeps cutting the inner crossing's chunks
    continuously through the whole sequence instead of restarting them with every inner run."""
    sp = _spec(case)
    tree = sp["block"]
    if tree["op"] != "nest":
        return False
    inner = {"factors": sp["factors"], "order": sp["order"], "block": tree["inner"]}
    try:
        fi = ref.analyze(inner)
    except Exception:
        return False
    if fi.T is None or not fi.crossings:
        return False
    return any((fi.T - c["q"]) % (c["S"] * c["cw"]) != 0 for c in fi.crossings)
