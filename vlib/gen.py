"""Seeded, stratified generators of design specs (DESIGN.md §2.2)."""
import itertools
import random

from . import spec as S

# K12 (deliberate feature combinations) is drawn three times as often as the other classes
CLASSES = ["K1", "K2", "K3", "K4", "K12", "K5", "K6", "K7", "K12", "K8", "K9", "K10", "K11", "K12", "K13"]
RUN_TYPES = ["AtMostKInARow", "AtLeastKInARow", "ExactlyKInARow", "ExactlyK"]


def _basic(rng, i, weights, nl=None):
    nl = nl or rng.choice([2, 2, 3])
    base = chr(97 + i)
    return {"kind": "basic",
            "levels": [[base + str(j), (rng.choice([1, 1, 2, 3]) if weights else 1)] for j in range(nl)]}


def add_derived(rng, spec, name, ty, weights=False, deps=None, else_level=None):
    F = spec["factors"]
    cand = [n for n in spec["order"] if S.stride(spec, n) == 1]
    if deps is None:
        deps = rng.sample(cand, min(len(cand), rng.choice([1, 1, 2])))
    if ty == "within":
        w, s, a = 1, 1, None
    elif ty == "transition":
        w, s, a = 2, 1, 1
    else:
        w = rng.choice([2, 2, 3])
        s = rng.choice([1, 1, 1, 2])
        a = rng.choice([None, None, 0, 1, w, w + 1])
    nl = rng.choice([2, 2, 3])
    f = {"kind": "derived", "win": [ty, w, s, a], "deps": deps,
         "levels": [[name.lower() + str(j), (rng.choice([1, 1, 2]) if weights else 1)] for j in range(nl)],
         "table": {}, "else": None}
    F[name] = f
    spec["order"].append(name)
    # Transition declares start=1 itself; a transition over a complex factor still starts at 1 in the library
    # (dataclass default), so its arguments may be None: always cover None where reachable.
    for tup in S.arg_domain(spec, name):
        f["table"][S.akey(tup)] = rng.randrange(nl)
    if else_level is None:
        else_level = rng.random() < 0.3
    if else_level:
        f["else"] = nl - 1
    return f


def _pick_crossing(rng, spec, names, max_size=8, allow_empty=False):
    F = spec["factors"]
    cand = [n for n in names if not (F[n]["kind"] == "derived" and F[n]["win"][2] > 1)]
    rng.shuffle(cand)
    out = []
    size = 1
    want = rng.choice([1, 2, 2, 3])
    for n in cand:
        s = sum(w for _, w in F[n]["levels"])
        if size * s <= max_size and len(out) < want:
            out.append(n)
            size *= s
    if not out and not allow_empty:
        out = [min(cand, key=lambda n: sum(w for _, w in F[n]["levels"]))]
    return sorted(out, key=names.index)


def gen_constraint(rng, spec, names, T_hint, types=None, boundary=True):
    F = spec["factors"]
    ty = rng.choice(types or ["AtMostKInARow", "AtMostKInARow", "AtLeastKInARow", "ExactlyKInARow", "ExactlyK",
                              "Pin", "Exclude"])
    fn = rng.choice(names)
    lv = rng.choice(F[fn]["levels"])[0]
    c = {"type": ty, "factor": fn, "level": lv}
    if ty in RUN_TYPES:
        if rng.random() < 0.15:
            c["level"] = None
        hi = T_hint + 2 if boundary and rng.random() < 0.25 else max(1, min(3, T_hint))
        c["k"] = rng.randint(1, max(1, hi))
    if ty == "Pin":
        lim = T_hint + 1 if boundary and rng.random() < 0.2 else max(0, T_hint - 1)
        c["index"] = rng.randint(-lim - 1 if lim else -1, lim)
    return c


def _T_hint(spec, crossing, mt=0):
    s = 1
    for n in crossing:
        s *= sum(w for _, w in spec["factors"][n]["levels"])
    p = max([S.fstart(spec, n) for n in crossing] + [0])
    return max(mt, s + p)


def gen_flat(rng, cls, max_size=8):
    """flat single CrossBlock design of the given class"""
    weights = cls in ("K2",) or (cls in ("K5", "K6", "K7") and rng.random() < 0.25)
    spec = {"factors": {}, "order": [], "block": None}
    nb = rng.choice([1, 2, 2, 3])
    for i in range(nb):
        n = "F%d" % i
        spec["factors"][n] = _basic(rng, i, weights)
        spec["order"].append(n)
    kinds = {"K1": [], "K2": ["within"], "K3": ["within", "within", "within2"], "K4": ["transition", "window", "mix"],
             "K5": ["within", "transition", "window"], "K6": ["within", "transition"],
             "K7": ["within", "within", "transition"]}.get(cls, ["within", "transition"])
    nd = 0 if not kinds else rng.choice([0, 1, 1, 2] if cls != "K1" else [0])
    if cls in ("K3", "K4"):
        nd = rng.choice([1, 1, 2])
    for di in range(nd):
        k = rng.choice(kinds)
        if k == "within2":
            k = "within"
        if k == "mix":
            k = rng.choice(["within", "transition", "window"])
        add_derived(rng, spec, "D%d" % di, k, weights=weights and rng.random() < 0.5)
    names = list(spec["order"])
    crossing = _pick_crossing(rng, spec, names, max_size)
    cons = []
    mt = 0
    if cls == "K6" or (cls in ("K5",) and rng.random() < 0.2):
        base = _T_hint(spec, crossing)
        mt = rng.choice([max(1, base - 1), base, base + 1, base + 2, 2 * base, 2 * base + 1])
        mt = min(mt, 10)
        cons.append({"type": "MinimumTrials", "trials": mt})
        if rng.random() < 0.3:
            # several MinimumTrials: the largest counts, whatever the order
            other = {"type": "MinimumTrials", "trials": max(1, mt - rng.randint(1, 3))}
            cons.insert(rng.choice([0, len(cons)]), other)
    Th = _T_hint(spec, crossing, mt)
    ncons = {"K1": 0, "K2": rng.choice([0, 1]), "K3": rng.choice([0, 1]), "K4": rng.choice([0, 1]),
             "K5": rng.choice([1, 1, 2, 3]), "K6": rng.choice([0, 1]), "K7": rng.choice([0, 1])}.get(cls, 0)
    for _ in range(ncons):
        cons.append(gen_constraint(rng, spec, names, Th, types=None if cls != "K7" else RUN_TYPES + ["Pin"]))
    rcc = True
    if cls == "K7":
        for _ in range(rng.choice([1, 1, 2])):
            cons.append(gen_constraint(rng, spec, names, Th, types=["Exclude"]))
        rcc = rng.random() < 0.3
    elif any(c["type"] == "Exclude" for c in cons) or nd:
        rcc = rng.random() < 0.5
    if cls == "K5" and rng.random() < 0.12:
        basics = [n for n in names if spec["factors"][n]["kind"] == "basic"
                  and all(w == 1 for _, w in spec["factors"][n]["levels"])]
        if basics:
            cons.append({"type": "Sequential", "factor": rng.choice(basics)})
    design = list(names)
    if rng.random() < 0.3:
        rng.shuffle(design)   # the order of the design list is independent of the order of definition
    spec["block"] = {"op": "cross", "design": design, "crossings": [crossing], "cons": cons, "rcc": rcc,
                     "mode": "weight", "align": "equal", "ctor": "CrossBlock"}
    return spec


def gen_multicross(rng):
    spec = {"factors": {}, "order": [], "block": None}
    nb = rng.choice([2, 3, 3])
    for i in range(nb):
        n = "F%d" % i
        spec["factors"][n] = _basic(rng, i, rng.random() < 0.2)
        spec["order"].append(n)
    if rng.random() < 0.5:
        add_derived(rng, spec, "D0", rng.choice(["within", "transition", "transition", "window"]))
    names = list(spec["order"])
    pool = [n for n in names if S.stride(spec, n) == 1]
    rng.shuffle(pool)
    k = rng.randint(2, min(3, len(pool)))
    crossings = [[pool[i]] for i in range(k)]
    if len(pool) > k and rng.random() < 0.5:
        crossings[0].append(pool[k])
    if rng.random() < 0.15:
        crossings[1].append(crossings[0][0])  # a factor shared by two crossings
    Th = max(_T_hint(spec, c) for c in crossings)
    cons = [gen_constraint(rng, spec, names, Th) for _ in range(rng.choice([0, 1, 1]))]
    if rng.random() < 0.2:
        cons.append({"type": "MinimumTrials", "trials": rng.randint(2, 9)})
    spec["block"] = {"op": "cross", "design": names, "crossings": crossings, "cons": cons,
                     "rcc": rng.random() < 0.7, "mode": rng.choice(["weight", "repeat", "equal"]),
                     "align": rng.choice(["equal", "equal", "post", "parallel"]), "ctor": "MultiCrossBlock",
                     "as_str": rng.random() < 0.35}   # the documented string spellings of mode / alignment
    return spec


def gen_repeat(rng, aligned=None):
    spec = gen_flat(rng, rng.choice(["K1", "K1", "K3", "K4", "K5", "K6"]), max_size=4)
    b = spec["block"]
    names = b["design"]
    from . import ref
    fl = ref.analyze(spec)
    if fl.ctor_err or fl.und_T or fl.T is None:
        per, pre = 2, 0
    else:
        pre = fl.geo[1]
        per = max(1, fl.T - pre)
    if aligned is None:
        aligned = rng.random() < 0.75
    reps = rng.choice([2, 2, 3])
    n = per * reps + pre if aligned else per * reps + pre + rng.randint(1, max(1, per - 1))
    n = min(n, 12)
    cons = [{"type": "MinimumTrials", "trials": n}]
    if rng.random() < 0.5:
        cons.append(gen_constraint(rng, spec, names, n, types=RUN_TYPES + ["Pin"]))
    spec["block"] = {"op": "repeat", "block": b, "cons": cons}
    return spec


def gen_merge(rng):
    spec = {"factors": {}, "order": [], "block": None}
    nb = rng.choice([2, 3, 3, 4])
    for i in range(nb):
        n = "F%d" % i
        spec["factors"][n] = _basic(rng, i, rng.random() < 0.12)
        spec["order"].append(n)
    if rng.random() < 0.4:
        add_derived(rng, spec, "D0", rng.choice(["within", "transition"]))
    names = list(spec["order"])
    pool = [n for n in names if spec["factors"][n]["kind"] == "basic"]
    rng.shuffle(pool)
    half = max(1, len(pool) // 2)
    parts = [pool[:half], pool[half:] or pool[:1]]
    blocks = []
    for part in parts:
        design = list(names) if rng.random() < 0.6 else sorted(set(part) | set(
            d for d in names if spec["factors"][d]["kind"] == "derived"
            and S.basic_roots(spec, d) <= set(part)), key=names.index)
        crossing = [n for n in part if n in design][:rng.choice([1, 1, 2])]
        if "D0" in design and rng.random() < 0.3 and S.stride(spec, "D0") == 1:
            crossing = crossing[:1] + ["D0"]
        Th = _T_hint(spec, crossing)
        cons = [gen_constraint(rng, spec, design, Th, types=RUN_TYPES + ["Pin"]) for _ in range(rng.choice([0, 1, 1]))]
        if rng.random() < 0.3:
            cons.append({"type": "MinimumTrials", "trials": rng.randint(2, 6)})
        blocks.append({"op": "cross", "design": design, "crossings": [crossing], "cons": cons,
                       "rcc": True, "mode": "weight", "align": "equal", "ctor": "CrossBlock"})
    Th = max(_T_hint(spec, b["crossings"][0]) for b in blocks)
    mcons = [gen_constraint(rng, spec, names, Th, types=RUN_TYPES + ["Pin"]) for _ in range(rng.choice([0, 1]))]
    spec["block"] = {"op": "merge", "blocks": blocks, "cons": mcons,
                     "mode": rng.choice(["repeat", "repeat", "weight", "equal"]), "align": None,
                     "as_str": rng.random() < 0.35}
    return spec


def gen_nest(rng, deep=None):
    spec = {"factors": {}, "order": [], "block": None}
    nb = rng.choice([2, 3, 3])
    for i in range(nb):
        n = "F%d" % i
        spec["factors"][n] = _basic(rng, i, False, nl=2 if i else rng.choice([2, 3]))
        spec["order"].append(n)
    if rng.random() < 0.35:
        add_derived(rng, spec, "D0", "within")
    names = list(spec["order"])
    basics = [n for n in names if spec["factors"][n]["kind"] == "basic"]
    rng.shuffle(basics)

    def cross(design, crossing, cons):
        return {"op": "cross", "design": design, "crossings": [crossing], "cons": cons, "rcc": True,
                "mode": "weight", "align": "equal", "ctor": "CrossBlock"}
    outer_f = basics[0]
    ocons = []
    outer_rcc = True
    if rng.random() < 0.25 and len(spec["factors"][outer_f]["levels"]) >= 3:
        # an incomplete outer crossing
        ocons.append({"type": "Exclude", "factor": outer_f, "level": rng.choice(spec["factors"][outer_f]["levels"])[0]})
        outer_rcc = False
    r = rng.random()
    if r < 0.25 and all(w == 1 for _, w in spec["factors"][outer_f]["levels"]):
        ocons.append({"type": "Sequential", "factor": outer_f})
    elif r < 0.4:
        ocons.append(gen_constraint(rng, spec, [outer_f], len(spec["factors"][outer_f]["levels"]),
                                    types=["Pin", "ExactlyK"], boundary=False))
    if rng.random() < 0.25:
        ocons.append({"type": "MinimumTrials", "trials": rng.randint(2, 4)})
    outer = cross([outer_f], [outer_f], ocons)
    outer["rcc"] = outer_rcc
    two_outer = None
    if len(basics) >= 3 and rng.random() < 0.3:
        # two sustained factors: the outer block crosses a second basic factor as well
        two_outer = basics[2]
        outer = cross([outer_f, two_outer], [outer_f, two_outer], ocons)
        outer["rcc"] = outer_rcc
    if deep is None:
        deep = rng.random() < 0.25
    inner_names = [n for n in names if n != outer_f and n != two_outer and (
        spec["factors"][n]["kind"] == "basic" or not ({outer_f, two_outer} & S.basic_roots(spec, n)))]
    if rng.random() < 0.3:
        inner_names = [n for n in names if n != outer_f or rng.random() < 0.5]
        inner_names = [n for n in names if n in inner_names or
                       (spec["factors"][n]["kind"] == "basic" and any(
                           S.uses(spec, d, n) for d in inner_names if spec["factors"][d]["kind"] == "derived"))]
    if two_outer:
        inner_names = [n for n in inner_names if n != two_outer and two_outer not in S.basic_roots(spec, n)]
    inner_b = [n for n in inner_names if spec["factors"][n]["kind"] == "basic" and n not in (outer_f, two_outer)]
    if not inner_b:
        inner_b = [basics[1]]
        inner_names = sorted(set(inner_names) | {basics[1]}, key=names.index)
    if deep and len(inner_b) >= 2:
        mid = cross([inner_b[0]], [inner_b[0]], [])
        rest = [n for n in inner_names if n != inner_b[0]]
        rest_ok = [n for n in rest if spec["factors"][n]["kind"] == "basic" or S.basic_roots(spec, n) <= set(rest)]
        inn = cross(rest_ok, [inner_b[1]], [])
        form = rng.choice(["right", "left"])
        if form == "right":
            spec["block"] = {"op": "nest", "outer": outer, "inner": {"op": "nest", "outer": mid, "inner": inn, "cons": []},
                             "cons": []}
        else:
            spec["block"] = {"op": "nest", "outer": {"op": "nest", "outer": outer, "inner": mid, "cons": []},
                             "inner": inn, "cons": []}
        return spec
    icross = inner_b[:rng.choice([1, 1, 2])]
    Th = _T_hint(spec, icross)
    icons = [gen_constraint(rng, spec, inner_names, Th, types=RUN_TYPES + ["Pin"]) for _ in range(rng.choice([0, 0, 1]))]
    if rng.random() < 0.25:
        icons.append({"type": "MinimumTrials", "trials": rng.randint(2, 5)})
    inner = cross(inner_names, icross, icons)
    ncons = []
    if rng.random() < 0.3:
        ncons.append(gen_constraint(rng, spec, [n for n in names if n in inner_names or n == outer_f],
                                    Th * len(spec["factors"][outer_f]["levels"]), types=["AtMostKInARow", "Pin", "ExactlyK"],
                                    boundary=False))
    spec["block"] = {"op": "nest", "outer": outer, "inner": inner, "cons": ncons}
    return spec


def gen_combo(rng):
    """K12: deliberate feature combinations that independent random choices rarely produce together — a crossed
    within-trial derived factor whose sources are (partly) outside the crossing, optionally together with a crossed
    transition factor (preamble), a weighted crossed level, a MinimumTrials that is not a multiple of the crossing
    size, an Exclude on a derived or basic level, a derived factor over a derived factor, and a design list whose
    order is not the definition order."""
    spec = {"factors": {}, "order": [], "block": None}
    F = spec["factors"]
    F["A"] = _basic(rng, 0, False, nl=rng.choice([2, 2, 3]))
    if rng.random() < 0.35:
        rng.choice(F["A"]["levels"])[1] = 2
    F["B"] = _basic(rng, 1, False, nl=rng.choice([2, 2, 3]))
    spec["order"] = ["A", "B"]
    if rng.random() < 0.3:
        F["C"] = _basic(rng, 2, False, nl=2)
        spec["order"].append("C")
    basics = list(spec["order"])
    add_derived(rng, spec, "W", "within", deps=rng.choice([["A", "B"], ["B"], ["B", "A"]] + ([["B", "C"]] if "C" in F else [])),
                else_level=None)
    if rng.random() < 0.45:
        add_derived(rng, spec, "V", "within", deps=rng.choice([["W", "A"], ["W"], ["B", "W"], ["W", "A"]]), else_level=None)
    has_tr = rng.random() < 0.45
    if has_tr:
        add_derived(rng, spec, "Tr", "transition", deps=[rng.choice(["A", "B", "W"])], else_level=None)
        F["Tr"]["levels"] = F["Tr"]["levels"][:2]
        for k in F["Tr"]["table"]:
            F["Tr"]["table"][k] %= 2
        if F["Tr"].get("else") is not None:
            F["Tr"]["else"] = 1
    names = list(spec["order"])
    options = [["A", "W"], ["W"], ["A"], ["A", "B"], ["B", "W"]]
    if has_tr:
        options += [["W", "Tr"], ["A", "Tr"], ["W", "Tr"], ["B", "Tr"], ["Tr"], ["Tr"]]
    if "V" in F:
        options += [["V"], ["A", "V"], ["A", "V"], ["V"]]
    crossing = rng.choice(options)
    if "V" in F and rng.random() < 0.45:
        # a crossed derived factor that reads an uncrossed derived factor
        crossing = rng.choice([["A", "V"], ["V"], ["A", "V"]])
    if "B" not in crossing and rng.random() < 0.3 and all(w == 1 for _, w in F["A"]["levels"]):
        # a weighted level of a factor outside the crossing (desugared into a hidden mirror factor)
        rng.choice(F["B"]["levels"])[1] = 2
    size = 1
    for n in crossing:
        size *= sum(w for _, w in F[n]["levels"])
    if size > 8:
        crossing = crossing[:1]
        size = sum(w for _, w in F[crossing[0]]["levels"])
    pre = 1 if "Tr" in crossing else 0
    cons = []
    rcc = rng.random() < 0.4
    r = rng.random()
    if "Tr" in crossing:
        r = r * 0.9 if r > 0.25 else r + 0.0   # with a preamble, excluded *basic* levels matter more (r in [.35,.5))
        if 0.25 <= r < 0.55:
            r = 0.4
    if r < 0.35:
        d = rng.choice([n for n in ("W", "V") if n in F])
        cons.append({"type": "Exclude", "factor": d, "level": rng.choice(F[d]["levels"])[0]})
        rcc = False
    elif r < 0.5:
        b = rng.choice(basics)
        cons.append({"type": "Exclude", "factor": b, "level": rng.choice(F[b]["levels"])[0]})
        rcc = False
    if any(F[n]["kind"] == "derived" for n in crossing) and rng.random() < 0.8:
        rcc = False
    T = size + pre
    weighted_crossed = any(w > 1 for n in crossing for _, w in F[n]["levels"])
    if rng.random() < (0.8 if weighted_crossed else 0.45):
        mt = rng.choice([size + 1, size + 1, size + 2, 2 * size - 1, 2 * size, 2 * size + 1]) + pre
        mt = max(2, min(mt, 8 if pre else 9))
        cons.append({"type": "MinimumTrials", "trials": mt})
        T = max(T, mt)
    if any(w > 1 for _, w in F["B"]["levels"]) and rng.random() < 0.6:
        # a whole-factor constraint on the weighted uncrossed factor
        cons.append({"type": rng.choice(["AtMostKInARow", "AtMostKInARow", "ExactlyKInARow", "ExactlyK"]), "factor": "B",
                     "level": None, "k": rng.choice([1, 1, 2])})
    if rng.random() < 0.45 or crossing == ["A"]:
        tgt = ["W"] if crossing == ["A"] and rng.random() < 0.7 else names
        cons.append(gen_constraint(rng, spec, tgt, T, types=["AtMostKInARow", "AtMostKInARow", "ExactlyK", "Pin",
                                                             "AtLeastKInARow", "ExactlyKInARow"], boundary=False))
    design = list(names)
    if rng.random() < 0.5:
        rng.shuffle(design)
    spec["block"] = {"op": "cross", "design": design, "crossings": [crossing], "cons": cons, "rcc": rcc,
                     "mode": "weight", "align": "equal", "ctor": "CrossBlock"}
    return spec


def gen_latin(rng):
    """K13: LatinSquare over two or three unweighted basic factors, crossed together, singly, or not at all (with
    MinimumTrials), optionally with a further constraint, an extra factor and a Repeat around it."""
    spec = {"factors": {}, "order": [], "block": None}
    n = rng.choice([2, 3, 3])
    sizes = [n] + [rng.choice([k for k in (2, 3) if k <= n]) for _ in range(rng.choice([1, 1, 2]))]
    rng.shuffle(sizes)
    lat = []
    for i, k in enumerate(sizes):
        nm = "L%d" % i
        spec["factors"][nm] = _basic(rng, i, False, nl=k)
        spec["order"].append(nm)
        lat.append(nm)
    if rng.random() < 0.4:
        spec["factors"]["X"] = _basic(rng, 5, False, nl=2)
        spec["order"].append("X")
    names = list(spec["order"])
    mode = rng.choice(["all", "all", "one", "none"])
    crossing = lat if mode == "all" else ([lat[0]] if mode == "one" else [])
    size = 1
    for f in crossing:
        size *= len(spec["factors"][f]["levels"])
    if size > 9:
        crossing, size = lat[:2], len(spec["factors"][lat[0]]["levels"]) * len(spec["factors"][lat[1]]["levels"])
    cons = [{"type": "LatinSquare", "factors": list(lat)}]
    if not crossing or rng.random() < 0.3:
        cons.append({"type": "MinimumTrials", "trials": rng.choice([n, 2 * n, 2 * n + 1, 3 * n])})
    if rng.random() < 0.3:
        cons.append(gen_constraint(rng, spec, names, max(size, n), types=["AtMostKInARow", "Pin", "ExactlyK"], boundary=False))
    design = list(names)
    if rng.random() < 0.3:
        rng.shuffle(design)
    spec["block"] = {"op": "cross", "design": design, "crossings": [crossing], "cons": cons, "rcc": True,
                     "mode": "weight", "align": "equal", "ctor": "CrossBlock"}
    return spec


def gen_spec(rng, cls):
    if cls == "K13":
        return gen_latin(rng)
    if cls == "K12":
        return gen_combo(rng)
    if cls == "K8":
        return gen_multicross(rng)
    if cls == "K9":
        return gen_repeat(rng)
    if cls == "K10":
        return gen_merge(rng)
    if cls == "K11":
        return gen_nest(rng)
    return gen_flat(rng, cls)


def stream(seed, count, classes=None, tag=""):
    """Deterministic list of (cls, spec) — round-robin over classes."""
    classes = classes or CLASSES
    out = []
    for i in range(count):
        cls = classes[i % len(classes)]
        rng = random.Random("%s/%s/%s/%d" % (tag, seed, cls, i))
        sp = gen_spec(rng, cls)
        out.append((cls, sp))
    return out
