"""C20 — output conversions preserve trials and hide internal factors.

Observed: experiments_to_tuples, experiments_to_dicts, save_experiments_csv (files read back with the csv module)
on (i) experiments synthesized by real strategies for generated designs, including designs with a weighted factor
outside the crossing (hidden desugared factor in block.design), and (ii) arbitrary well-formed experiments for
blocks whose factor and level names contain commas, quotes, blanks, newlines and non-ASCII characters.
Oracle: an independent three-line model — for experiment e, trial t and user-declared factor f (design order) the
value is e[f][t]; no key / column that is not a user-declared factor name; one file per experiment named
<prefix>_<i>.csv with a header and T rows; synthesize_trials itself returns only user-declared names.
"""
import csv
import os
import random
import tempfile

from vlib import designs as D, observe as O, gen, spec as S

ID = "C20"
RULE = ("cases = (a) generated designs K1-K3/K5 with extra weighted uncrossed factors, synthesized by RandomGen or "
        "IterateSATGen (2-3 experiments); (b) hand-built blocks with hostile factor/level names and arbitrary "
        "experiments (values str/int/float/''), 1-4 experiments of 1-7 trials; (c) blocks with 1-2 ContinuousFactors, "
        "with / without a weighted uncrossed factor and a derived factor, synthesized by RandomGen / IterateSATGen / "
        "IterateGen. non-trivial = >= 1 experiment with "
        ">= 2 trials converted by all three functions; distinct = distinct case contents")
ASSUMPTIONS = ["csv files are read back with Python's csv module (the writer's dialect)"]
MINIMUMS = {"quick": {"experiments_converted": 600, "cells_compared": 20000, "designs_with_hidden_factor": 40,
                      "hostile_name_cases": 100},
            "thorough": {"experiments_converted": 9000, "cells_compared": 300000, "designs_with_hidden_factor": 600,
                         "hostile_name_cases": 1500}}
CASE_TIMEOUT = 60
HOSTILE = ["a,b", 'q"uote', "new\nline", "sp ace", "ünï", "日本", "semi;colon", "tab\tx", "'single'", "x|y", " lead",
           "trail ", "0", "None", "", "a\r\nb"]


def cases(tier, seed):
    n = 6000 if tier == "thorough" else 420
    out = []
    for i in range(n):
        rng = random.Random("c20/%s/%d" % (seed, i))
        if i % 3 == 2:
            nf = rng.randint(1, 4)
            names = rng.sample([h for h in HOSTILE if h != ""], nf)
            facs = []
            for fn in names:
                nl = rng.randint(2, 3)
                lv = rng.sample(HOSTILE, nl) if rng.random() < 0.7 else [rng.choice([1, 2.5, -3, 10**6]) for _ in range(nl)]
                if len(set(map(str, lv))) < nl:
                    lv = ["l%d" % j for j in range(nl)]
                facs.append([fn, lv])
            T = rng.randint(1, 7)
            ne = rng.randint(1, 4)
            exps = []
            for _ in range(ne):
                e = {}
                for fn, lv in facs:
                    e[fn] = [rng.choice(lv + [""]) for _ in range(T)]
                if rng.random() < 0.3:
                    items = list(e.items())
                    rng.shuffle(items)  # key order of the dict must not matter
                    e = dict(items)
                exps.append(e)
            out.append({"cls": "hostile", "kind": "hostile", "factors": facs, "experiments": exps,
                        "prefix": rng.choice(["experiment", "out put", "é"])})
        else:
            sp = gen.gen_flat(rng, rng.choice(["K1", "K2", "K2", "K3", "K5"]), max_size=6)
            if i % 3 == 1:
                # add a weighted basic factor outside the crossing -> hidden desugared factor in block.design
                nm = "W0"
                sp["factors"][nm] = {"kind": "basic", "levels": [["w0", rng.choice([2, 3])], ["w1", 1]]}
                sp["order"].append(nm)
                sp["block"]["design"].append(nm)
            out.append({"cls": "synth", "kind": "synth", "spec": sp, "strategy": rng.choice(["RandomGen", "IterateSATGen"]),
                        "n": rng.randint(1, 3)})
    # appended (round 4): blocks with ContinuousFactors (kept apart from block.design by the library), with and
    # without a weighted factor outside the crossing (hidden desugared factor)
    for i in range(n // 7):
        rng = random.Random("c20cont/%s/%d" % (seed, i))
        out.append({"cls": "synth_cont", "kind": "synth_cont", "nb": rng.randint(2, 3), "weighted": rng.random() < 0.7,
                    "derived": rng.random() < 0.4, "ncont": rng.randint(1, 2), "cont_first": rng.random() < 0.3,
                    "strategy": rng.choice(["RandomGen", "IterateSATGen", "IterateGen"]), "n": rng.randint(1, 3),
                    "seed": rng.randrange(10 ** 6)})
    return out


def run_cont(case):
    """design with continuous factors, built directly (the spec language has no continuous factors)"""
    import sweetpea as sp
    counters = {}
    viol = []
    rng = random.Random(case["seed"])
    facs = [sp.Factor("F%d" % i, ["%s%d" % (chr(97 + i), j) for j in range(2)]) for i in range(case["nb"])]
    design = list(facs)
    if case["derived"]:
        a, b = facs[0], facs[1]
        design.append(sp.Factor("D0", [sp.DerivedLevel("same", sp.WithinTrial(lambda x, y: x[1] == y[1], [a, b])),
                                       sp.DerivedLevel("diff", sp.WithinTrial(lambda x, y: x[1] != y[1], [a, b]))]))
    if case["weighted"]:
        design.append(sp.Factor("W0", [sp.Level("w0", rng.choice([2, 3])), "w1"]))
    conts = []
    for i in range(case["ncont"]):
        if i == 1 and rng.random() < 0.5:
            conts.append(sp.ContinuousFactor("C1", distribution=sp.CustomDistribution(lambda v: v + 1.0, [conts[0]])))
        else:
            conts.append(sp.ContinuousFactor("C%d" % i, distribution=sp.UniformDistribution(0.0, 1.0 + i)))
    design = (conts + design) if case["cont_first"] else (design + conts)
    user = [f.name for f in design]
    block, err, _ = O.quiet(sp.CrossBlock, design, facs[:rng.randint(1, len(facs))], [])
    if err:
        return {"nontrivial": False, "violations": [], "counters": {"rejected_by_constructor": 1}}
    from sweetpea._internal.primitive import HiddenName
    if any(isinstance(f.name, HiddenName) for f in block.design):
        counters["designs_with_hidden_factor"] = 1
    exps, err, _ = O.quiet(sp.synthesize_trials, block, case["n"], getattr(sp, case["strategy"]))
    if err:
        viol.append(D.exc_violation(err, "synthesize_trials", kind="conversion_exception"))
        exps = None
    if not exps:
        counters["no_experiments"] = 1
        return {"nontrivial": False, "violations": viol, "counters": counters}
    counters["continuous_designs"] = 1
    for e in exps:
        if set(e) != set(user) or any(not isinstance(k, str) for k in e):
            viol.append({"kind": "synth_keys", "msg": "synthesize_trials returned keys %r, user-declared factors are %r"
                                                      % (list(e.keys()), user)})
            break
    if not viol:
        # column order: discrete factors in design order, continuous factors wherever the library puts them -
        # compare per name, order of the discrete names only
        order = [f.name for f in design if not isinstance(f, sp.ContinuousFactor)]
        tup, e1, _ = O.quiet(sp.experiments_to_tuples, block, exps)
        dic, e2, _ = O.quiet(sp.experiments_to_dicts, block, exps)
        for nm, e in (("experiments_to_tuples", e1), ("experiments_to_dicts", e2)):
            if e:
                viol.append(D.exc_violation(e, nm, kind="conversion_exception"))
        cells = 0
        for ei, e in enumerate(exps):
            T = len(e[user[0]])
            if dic is not None and not viol:
                rows = dic[ei]
                want = [{f: e[f][t] for f in user} for t in range(T)]
                if [dict(r) for r in rows] != want or any([k for k in r if k in order] != order for r in rows):
                    viol.append({"kind": "dicts_differ", "msg": "experiments_to_dicts (continuous design) experiment %d: %r, "
                                                                "expected %r" % (ei, list(rows)[:2], want[:2])})
                cells += T * len(user)
            if tup is not None and dic is not None and not viol:
                keys = list(dic[ei][0].keys())
                if [tuple(r) for r in tup[ei]] != [tuple(e[f][t] for f in keys) for t in range(T)]:
                    viol.append({"kind": "tuples_differ", "msg": "experiments_to_tuples (continuous design) experiment %d: %r"
                                                                 % (ei, list(tup[ei])[:3])})
                cells += T * len(user)
        with tempfile.TemporaryDirectory(dir=".") as d:
            pre = os.path.join(d, "experiment")
            _, e3, _ = O.quiet(sp.save_experiments_csv, block, exps, pre)
            if e3:
                viol.append(D.exc_violation(e3, "save_experiments_csv", kind="conversion_exception"))
            else:
                for ei, e in enumerate(exps):
                    with open("%s_%d.csv" % (pre, ei), newline="") as f:
                        rows = list(csv.reader(f))
                    T = len(e[user[0]])
                    hdr = rows[0] if rows else []
                    if sorted(hdr) != sorted(user) or [h for h in hdr if h in order] != order or \
                            rows[1:] != [[str(e[h][t]) for h in hdr] for t in range(T)]:
                        viol.append({"kind": "csv_differs", "msg": "csv (continuous design) of experiment %d reads back as %r; "
                                                                   "user-declared factors %r" % (ei, rows[:3], user)})
                        break
                    cells += T * len(user)
        counters["experiments_converted"] = len(exps)
        counters["cells_compared"] = cells
    return {"nontrivial": True, "violations": viol[:4], "counters": counters,
            "sample": {"case": {k: case[k] for k in case if k != "cls"}, "experiment": {str(k): list(v)[:4] for k, v in exps[0].items()}}}


def check_conversions(block, user_names, exps, prefix, viol, counters):
    import sweetpea as sp
    cells = 0
    tup, e1, _ = O.quiet(sp.experiments_to_tuples, block, exps)
    dic, e2, _ = O.quiet(sp.experiments_to_dicts, block, exps)
    for nm, e in (("experiments_to_tuples", e1), ("experiments_to_dicts", e2)):
        if e:
            viol.append(D.exc_violation(e, nm, kind="conversion_exception"))
    if tup is not None:
        if len(tup) != len(exps):
            viol.append({"kind": "tuples_count", "msg": "%d experiments in, %d out" % (len(exps), len(tup))})
        for ei, (e, rows) in enumerate(zip(exps, tup)):
            T = len(e[user_names[0]])
            want = [tuple(e[f][t] for f in user_names) for t in range(T)]
            cells += T * len(user_names)
            if list(rows) != want:
                viol.append({"kind": "tuples_differ", "msg": "experiments_to_tuples experiment %d: %r, expected %r"
                                                             % (ei, list(rows)[:3], want[:3])})
                break
    if dic is not None:
        for ei, (e, rows) in enumerate(zip(exps, dic)):
            T = len(e[user_names[0]])
            want = [{f: e[f][t] for f in user_names} for t in range(T)]
            cells += T * len(user_names)
            if list(rows) != want or any(list(r.keys()) != list(user_names) for r in rows):
                viol.append({"kind": "dicts_differ", "msg": "experiments_to_dicts experiment %d: %r, expected %r"
                                                            % (ei, list(rows)[:2], want[:2])})
                break
    with tempfile.TemporaryDirectory(dir=".") as d:
        pre = os.path.join(d, prefix)
        _, e3, _ = O.quiet(sp.save_experiments_csv, block, exps, pre)
        if e3:
            viol.append(D.exc_violation(e3, "save_experiments_csv", kind="conversion_exception"))
        else:
            files = sorted(os.listdir(d))
            wantf = sorted("%s_%d.csv" % (prefix, i) for i in range(len(exps)))
            if files != wantf:
                viol.append({"kind": "csv_files", "msg": "files written %r, expected %r" % (files, wantf)})
            else:
                for ei, e in enumerate(exps):
                    with open("%s_%d.csv" % (pre, ei), newline="") as f:
                        rows = list(csv.reader(f))
                    T = len(e[user_names[0]])
                    want = [list(user_names)] + [[str(e[f][t]) for f in user_names] for t in range(T)]
                    cells += T * len(user_names)
                    if rows != want:
                        viol.append({"kind": "csv_differs", "msg": "csv of experiment %d reads back as %r, expected %r"
                                                                   % (ei, rows[:3], want[:3])})
                        break
    counters["experiments_converted"] = counters.get("experiments_converted", 0) + len(exps)
    counters["cells_compared"] = counters.get("cells_compared", 0) + cells


def run_case(case):
    import sweetpea as sp
    counters = {}
    viol = []
    if case["kind"] == "hostile":
        facs = [sp.Factor(fn, list(lv)) for fn, lv in case["factors"]]
        block, err, _ = O.quiet(sp.CrossBlock, facs, facs[:1], [])
        if err:
            return {"nontrivial": False, "violations": [], "counters": {"rejected_by_constructor": 1}}
        user = [fn for fn, _ in case["factors"]]
        exps = case["experiments"]
        check_conversions(block, user, exps, case["prefix"], viol, counters)
        counters["hostile_name_cases"] = 1
        T = len(exps[0][user[0]])
        return {"nontrivial": T >= 2, "violations": viol[:4], "counters": counters,
                "sample": {"factors": case["factors"], "experiments": exps[:1]}}
    if case["kind"] == "synth_cont":
        return run_cont(case)
    spec = case["spec"]
    block, pool, cerr = O.construct(spec)
    if cerr:
        return {"nontrivial": False, "violations": [], "counters": {"rejected_by_constructor": 1}}
    user = S.tree_design(spec["block"])
    from sweetpea._internal.primitive import HiddenName
    hidden = [f for f in block.design if isinstance(f.name, HiddenName)]
    if hidden:
        counters["designs_with_hidden_factor"] = 1
    exps, err, st = D.run_strategy(spec, case["strategy"], case["n"], 8)
    if st != "ok" or err or not exps:
        counters["no_experiments"] = 1
        return {"nontrivial": False, "violations": [], "counters": counters}
    for e in exps:
        if set(e) != set(user) or any(not isinstance(k, str) for k in e):
            viol.append({"kind": "synth_keys", "msg": "synthesize_trials returned keys %r, user-declared factors are %r"
                                                      % (list(e.keys()), user)})
            break
    if not viol:
        check_conversions(block, user, exps, "experiment", viol, counters)
    T = len(exps[0][user[0]]) if user and user[0] in exps[0] else 0
    return {"nontrivial": T >= 2, "violations": viol[:4], "counters": counters,
            "sample": {"spec": D.small(spec), "strategy": case["strategy"], "experiment": {str(k): v for k, v in exps[0].items()}}}
