"""C02 — exhausting IterateSATGen yields exactly the valid sequences.

Observed: the list returned by synthesize_trials(block, |R|+25, IterateSATGen) on a freshly built block.
Oracle: multiset of printed sequences == R.enumerate (each printed sequence as often as it has distinct copy
choices of weighted uncrossed levels); [] iff R is empty.
"""
from vlib import designs as D, observe as O

ID = "C02"
RULE = ("cases = generated design specs of classes K1-K11 (flat, weighted, within/transition/window derived, all "
        "constraint types with boundary k/index, MinimumTrials, Exclude, MultiCrossBlock modes/alignments, Repeat, "
        "Merge, Nest). A case is non-trivial when the constructor accepted it, R decides it (not UNDECIDED, <= 600 "
        "solutions) and IterateSATGen was exhausted and compared; distinct = distinct spec hashes among those")
ASSUMPTIONS = ["reference model R (vlib/ref.py) is the documented semantics inside its decidable region",
               "pycryptosat (as driven by sweetpea) is a correct SAT solver"]
MINIMUMS = {"quick": {"compared": 120, "compared_nonempty": 50, "compared_empty": 15, "sequences_compared": 1500},
            "thorough": {"compared": 420, "compared_nonempty": 175, "compared_empty": 52, "sequences_compared": 5250}}
CASE_TIMEOUT = 120
CAP = 600


def cases(tier, seed):
    from vlib import gen2
    out = D.spec_cases(tier, seed, None, 330, 2600, "c02")
    # appended classes (vlib/gen2.py): unequal preambles, preamble + block constraints, Nest outer constraints,
    # weighted leftover rounds, colliding level names
    return out + gen2.appended(tier, seed, "c02", ["A1", "A2", "A3", "A4", "A5"], 100, 700)


def compare(p, want, got, strat, exhausted=True):
    """exhausted=False: the sampler returned as many sequences as were requested, so it may have more; then only
    sequences that should not exist can be concluded, not missing ones"""
    viol = []
    extra = [k for k in got if k not in want]
    missing = [k for k in want if k not in got] if exhausted else []
    if extra:
        import json
        seq = json.loads(extra[0])
        reasons, _ = D.check_valid(p, seq)
        v = D.invalid_violation(strat, seq, reasons or ["not in R's enumeration"], n_extra=len(extra))
        v["kind"] = "extra"
        viol.append(v)
    if missing:
        viol.append({"kind": "missing", "strategy": strat, "n_missing": len(missing), "n_returned": sum(got.values()),
                     "all_missing": not got,
                     "msg": "%s exhausted with %d sequences but %d valid sequences were never returned, e.g. %s"
                            % (strat, sum(got.values()), len(missing), missing[0][:300])})
    multi = [(k, got[k], want[k]) for k in got if k in want and (got[k] != want[k] if exhausted else got[k] > want[k])]
    if multi:
        k, g, w = multi[0]
        viol.append({"kind": "multiplicity", "strategy": strat, "more": g > w,
                     "msg": "%s returned a printed sequence %d times, it has %d distinct solutions: %s" % (strat, g, w, k[:300])})
    return viol


def run_case(case):
    p = D.prepare(case)
    if p.result:
        return p.result
    counters = p.counters
    want = D.ref_counter(p, CAP)
    if want is None:
        counters["undecided_or_too_big"] = 1
        if p.fl.und or p.fl.und_T:
            counters["R_undecided"] = 1
        return {"nontrivial": False, "violations": [], "counters": counters}
    total = sum(want.values())
    r, err, out = O.synth(p.block, total + 25, "IterateSATGen")
    viol = []
    if err:
        viol.append(D.exc_violation(err, "IterateSATGen"))
        counters["raised"] = 1
    else:
        got = D.seq_counter(r)
        exhausted = len(r) < total + 25
        if not exhausted:
            counters["returned_as_many_as_requested"] = 1
        viol = compare(p, want, got, "IterateSATGen", exhausted)
        counters["compared"] = 1
        counters["compared_empty" if not want else "compared_nonempty"] = 1
        counters["sequences_compared"] = total
        if any(v > 1 for v in want.values()):
            counters["designs_with_copy_multiplicity"] = 1
    return {"nontrivial": not err, "dkey": None, "violations": viol, "counters": counters,
            "sample": {"spec": D.small(p.spec), "T": p.fl.T, "valid_sequences": total,
                       "returned": None if err else len(r)}}
