"""C03 — each trial sequence is exactly one model of the compiled formula.

Observed: the clause set build_cnf(block) hands to the solvers and the support size variables_per_sample().
Oracle (independent incremental SAT calls): for every assignment s of the support variables that extends to a
model M, no second model agrees with s (M blocked on all non-support variables, solve under assumptions s must be
UNSAT); the number of full models equals the number of projected models when both are enumerable.
"""
from vlib import designs as D, observe as O

ID = "C03"
RULE = ("cases = generated design specs K1-K11 (R-UNDECIDED ones included: no reference model is needed); per "
        "case every projected solution (<= CAP) of the real compiled formula is tested for a second extension. "
        "non-trivial = the formula has auxiliary variables and >= 2 projected solutions; distinct = spec hashes")
ASSUMPTIONS = ["pycryptosat answers SAT/UNSAT correctly", "support = variables 1..variables_per_sample()"]
MINIMUMS = {"quick": {"solutions_tested": 12000, "designs_tested": 150, "aux_vars_seen": 5000},
            "thorough": {"solutions_tested": 200000, "designs_tested": 2500, "aux_vars_seen": 80000}}
CASE_TIMEOUT = 150
CAP = 1500


def cases(tier, seed):
    out = D.spec_cases(tier, seed, None, 400, 5500, "c03")
    # appended classes of vlib/gen2.py (added after the generator freeze; see DESIGN.md 2.2)
    from vlib import gen2
    return out + gen2.appended(tier, seed, "c03", ['A1', 'A3', 'A2', 'A5'], 60, 600)


def run_case(case):
    from sweetpea._internal.server import build_cnf
    from vlib.satx import Sat, clauses_of
    p = D.prepare(case)
    if p.result:
        return p.result
    counters = p.counters
    cnf, err, out = O.quiet(build_cnf, p.block)
    if err:
        counters["build_cnf_raised"] = 1
        return {"nontrivial": False, "violations": [], "counters": counters}
    clauses = clauses_of(cnf)
    support = p.block.variables_per_sample()
    used = {abs(l) for c in clauses for l in c}
    nvars = max(list(used) + [support, 1])
    aux = sorted(v for v in used if v > support)
    sat = Sat(clauses, nvars)
    act = nvars
    viol = []
    tested = 0
    complete = False
    proj = list(range(1, support + 1))
    while tested < CAP:
        m = sat.solve()
        if m is None:
            complete = True
            break
        s = [v if m[v] else -v for v in proj]
        tested += 1
        if aux:
            act += 1
            sat.add([-act] + [(-v if m[v] else v) for v in aux])
            m2 = sat.solve(s + [act])
            if m2 is not None:
                diff = [v for v in aux if m[v] != m2[v]]
                viol.append({"kind": "second_extension", "n_free_aux": len(diff),
                             "msg": "a trial-variable assignment has two models of the compiled formula; they differ "
                                    "on auxiliary variables %s (support %d, %d variables)" % (diff[:8], support, nvars)})
                sat.add([-act])
                break
            sat.add([-act])
        if not s:
            complete = True
            break
        sat.add([-l for l in s])
    counters["solutions_tested"] = tested
    counters["aux_vars_seen"] = len(aux)
    counters["designs_tested"] = 1
    if complete:
        counters["designs_fully_enumerated"] = 1
    # full-model count == projected count (small designs only)
    if complete and not viol and 0 < tested <= 400 and aux:
        from vlib.satx import enumerate_projected
        full, comp = enumerate_projected(clauses, sorted(used | set(proj)), tested + 5, nvars)
        counters["full_counts_compared"] = 1
        if len(full) != tested:
            viol.append({"kind": "count_mismatch", "msg": "%d models of the full formula, %d projected on the %d "
                                                          "trial variables" % (len(full), tested, support)})
    return {"nontrivial": bool(aux) and tested >= 2, "violations": viol, "counters": counters,
            "sample": {"spec": D.small(p.spec), "support": support, "variables": nvars, "clauses": len(clauses),
                       "projected_solutions_tested": tested, "complete": complete}}
