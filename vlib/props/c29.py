"""C29 — SMGen either refuses a design or returns valid sequences.

Observed: synthesize_trials(block, n, SMGen) in a forked child under a hard wall-clock guard (an infeasible or
unlucky search never stops: SMGen's own 60 s watchdog only raises inside its timer thread): the refusal text, or
the returned sequences. Two consecutive calls are made in the same process (reset_state between designs), and in a
third of the cases the watchdog timer's interval is shortened to 10 ms so that it fires during the search.
Oracle: a refusal (exception whose message says 'not supported' / 'Unsupported') or every returned sequence valid
by the reference model with the documented trial count (necessary conditions only where R is undecided). An
unrelated crash returns no sequence and is recorded, not reported; a search that hits the guard is inconclusive.
"""
import random

from vlib import designs as D, observe as O, ref, gen, spec as S

ID = "C29"
RULE = ("cases = generated designs K1-K7 and Repeat (K9) restricted to within-trial / transition derived factors, "
        "with weights, MinimumTrials and every constraint type; non-trivial = SMGen returned >= 1 sequence that R "
        "judged fully, or refused; distinct = spec hashes")
ASSUMPTIONS = ["reference model R (vlib/ref.py)", "a refusal is an Exception whose text contains 'not supported' or 'Unsupported'"]
MINIMUMS = {"quick": {"returned_and_judged": 25, "refused": 40, "sequences_judged": 80, "primer_sequences_judged": 100},
            "thorough": {"returned_and_judged": 87, "refused": 140, "sequences_judged": 280, "primer_sequences_judged": 350}}
CASE_TIMEOUT = 60
MAX_INCONCLUSIVE_FRACTION = 0.5
CLASSES = ["K1", "K2", "K3", "K4", "K5", "K6", "K6", "K7", "K9", "K3", "K2", "K12"]


def cases(tier, seed):
    n = 1000 if tier == "thorough" else 200
    out = []
    i = 0
    for cls, sp in gen.stream(seed, n, CLASSES, "c29"):
        i += 1
        if any(f["kind"] == "derived" and f["win"][0] == "window" for f in sp["factors"].values()):
            # SMGen documents only within-trial and transition windows; keep a few for the refusal path
            if i % 4:
                continue
        out.append({"cls": cls, "spec": sp, "short_timer": i % 3 == 0})
    # appended sub-stream: designs SMGen supports by its documentation and that exercise its own handling of
    # derived factors — a crossed transition (random, direction-sensitive table) or within-trial factor, weights,
    # MinimumTrials, no other constraint
    import random
    for j in range(400 if tier == "thorough" else 60):
        rng = random.Random("c29s/%s/%d" % (seed, j))
        sp = {"factors": {}, "order": [], "block": None}
        for k in range(rng.choice([1, 2, 2])):
            nm = "F%d" % k
            sp["factors"][nm] = gen._basic(rng, k, rng.random() < 0.25, nl=rng.choice([2, 2, 3]))
            sp["order"].append(nm)
        kind = rng.choice(["transition", "transition", "within"])
        gen.add_derived(rng, sp, "D0", kind, deps=[rng.choice(sp["order"])] if kind == "transition" else None, else_level=False)
        names = list(sp["order"])
        crossing = rng.choice([["D0"], ["F0", "D0"], ["F0"], names[:2]])
        cons = []
        if rng.random() < 0.25:
            cons.append({"type": "MinimumTrials", "trials": rng.randint(3, 8)})
        sp["block"] = {"op": "cross", "design": names, "crossings": [crossing], "cons": cons, "rcc": rng.random() < 0.5,
                       "mode": "weight", "align": "equal", "ctor": "CrossBlock"}
        out.append({"cls": "smgen-friendly", "spec": sp, "short_timer": j % 3 == 0})
    return out


# A design SMGen accepts whose crossing holds a derived factor with a weighted level: every case first samples
# this one, so that each case's own calls start from a process in which SMGen has already run on a *different*
# design (reset_state between designs is part of what is observed).
PRIMER = {"factors": {"P0": {"kind": "basic", "levels": [["p00", 1], ["p01", 1]]},
                      "P1": {"kind": "basic", "levels": [["p10", 1], ["p11", 1]]},
                      "PW": {"kind": "derived", "win": ["within", 1, 1, None], "deps": ["P0", "P1"],
                             "levels": [["same", 2], ["diff", 1]],
                             "table": {'["p00", "p10"]': 0, '["p01", "p11"]': 0, '["p00", "p11"]': 1, '["p01", "p10"]': 1},
                             "else": None}},
          "order": ["P0", "P1", "PW"],
          "block": {"op": "cross", "design": ["P0", "P1", "PW"], "crossings": [["P0", "PW"]], "cons": [], "rcc": True,
                    "mode": "weight", "align": "equal", "ctor": "CrossBlock"}}


def child(spec, short_timer):
    import sweetpea as sp
    from sweetpea._internal.sampling_strategy import scattered_map_core as smc
    fired = [0]
    if short_timer:
        real = smc.threading.Timer

        def quick_timer(interval, fn, *a, **k):
            def wrapped(*aa, **kk):
                fired[0] += 1
                return fn(*aa, **kk)
            return real(0.01, wrapped, *a, **k)
        smc.threading.Timer = quick_timer
    outs = []
    pb, _, pe = O.construct(PRIMER)
    pr, perr, _ = O.quiet(sp.synthesize_trials, pb, 1, sp.SMGen)
    primer = {"r": pr, "err": perr}
    for rep in range(2):
        b, pool, e = O.construct(spec)
        if e:
            return {"ctor": e}
        r, err, out = O.quiet(sp.synthesize_trials, b, 2, sp.SMGen)
        outs.append({"r": r, "err": err})
    import time
    time.sleep(0.05)
    return {"outs": outs, "fired": fired[0], "primer": primer}


def run_case(case):
    spec = case["spec"]
    counters = {}
    fl = ref.analyze(spec)
    val, st = O.guarded(child, 10, spec, case["short_timer"])
    if st != "ok":
        counters["search_" + st] = 1
        return {"nontrivial": False, "violations": [], "counters": counters,
                "inconclusive": None}
    if "_raised" in val or "ctor" in val:
        counters["rejected_by_constructor"] = 1
        return {"nontrivial": False, "violations": [], "counters": counters}
    if val.get("fired"):
        counters["timer_fired_cases"] = 1
    viol = []
    nontrivial = False
    user = S.tree_design(spec["block"])
    pr = val.get("primer") or {}
    if pr.get("r"):
        pfl = ref.analyze(PRIMER)
        counters["primer_sequences_judged"] = len(pr["r"])
        for s_ in pr["r"]:
            rr = ref.valid(PRIMER, pfl, s_)
            if rr:
                viol.append(D.invalid_violation("SMGen", s_, rr, decided=True, call_index=-1))
                break
    for ci, o in enumerate(val["outs"]):
        err, r = o["err"], o["r"]
        if err:
            if "not supported" in err["msg"] or "Unsupported" in err["msg"]:
                counters["refused"] = counters.get("refused", 0) + (1 if ci == 0 else 0)
                nontrivial = True
            else:
                counters["crashed_" + err["exc"]] = 1
            continue
        if not r:
            counters["returned_nothing"] = 1
            continue
        judged_full = False
        for s in r:
            if fl.ctor_err or fl.und_T or fl.T is None:
                reasons, decided = [], False
            elif fl.und:
                reasons, decided = ref.necessary_only(spec, fl, s), False
            else:
                reasons, decided = ref.valid(spec, fl, s), True
            counters["sequences_judged"] = counters.get("sequences_judged", 0) + 1
            judged_full = judged_full or decided
            if reasons:
                v = D.invalid_violation("SMGen", s, reasons, decided=decided, call_index=ci)
                viol.append(v)
                break
        if judged_full and ci == 0:
            counters["returned_and_judged"] = 1
            nontrivial = True
        if viol:
            break
    return {"nontrivial": nontrivial, "violations": viol[:2], "counters": counters,
            "sample": {"spec": D.small(spec), "T": fl.T, "short_timer": case["short_timer"],
                       "outcome": ["refused" if o["err"] else ("%d sequences" % len(o["r"] or [])) for o in val["outs"]]}}
