"""C01 — formula-based samplers return only valid trial sequences.

Observed: what synthesize_trials returns for IterateSATGen / CMSGen / UniGen / IterateGen / UniformGen on freshly
built blocks, plus every model of build_cnf(block) (projected on the trial variables, <= MODEL_CAP) decoded through
the real Gen.decode + add_implied_levels — any of those is a model "the samplers may return".
Oracle: R.valid (vlib/ref.py); on R-UNDECIDED designs only the necessary conditions (lengths, level membership,
derivations, Exclude).
"""
from vlib import designs as D, observe as O

ID = "C01"
RULE = ("cases = generated design specs of classes K1-K11; per case the real samplers are run (IterateSATGen up to "
        "CAP sequences, CMSGen, UniGen, IterateGen, UniformGen a few each) and all projected models of the compiled "
        "formula (<= MODEL_CAP) are decoded by the real decoder; every sequence is judged by the reference model. "
        "non-trivial = constructor accepted, R decides validity fully, and >= 2 sequences were judged; distinct = "
        "distinct spec hashes")
ASSUMPTIONS = ["reference model R (vlib/ref.py) is the documented semantics inside its decidable region",
               "pycryptosat/pycmsgen/pyunigen return genuine models of the formula they are given"]
MINIMUMS = {"quick": {"sequences_judged_fully": 4000, "designs_fully_judged": 100, "cmsgen_sequences": 100, "unigen_sequences": 30, "cnf_models_judged": 2000},
            "thorough": {"sequences_judged_fully": 14000, "designs_fully_judged": 350, "cmsgen_sequences": 350, "unigen_sequences": 105, "cnf_models_judged": 7000}}
CASE_TIMEOUT = 150
CAP = 300
MODEL_CAP = 1500


def cases(tier, seed):
    out = D.spec_cases(tier, seed, None, 330, 1800, "c01")
    # appended classes of vlib/gen2.py (added after the generator freeze; see DESIGN.md 2.2)
    from vlib import gen2
    return out + gen2.appended(tier, seed, "c01", ['A1', 'A2', 'A3', 'A5'], 60, 400)


def run_case(case):
    p = D.prepare(case)
    if p.result:
        return p.result
    counters = p.counters
    viol = []
    judged = full = 0
    seen_kinds = set()

    def judge(seq, strat):
        nonlocal judged, full
        reasons, decided = D.check_valid(p, D.user_view(p, seq) if set(seq) >= set(p.user) else seq)
        judged += 1
        full += int(decided)
        if reasons:
            v = D.invalid_violation(strat, seq, reasons, decided=decided)
            key = (strat, v["reason_class"], v["constraint_type"])
            if key not in seen_kinds and len(viol) < 6:
                seen_kinds.add(key)
                viol.append(v)

    plan = [("IterateSATGen", CAP), ("CMSGen", 4), ("UniGen", 2), ("IterateGen", 3), ("UniformGen", 2)]
    vps = p.block.variables_per_sample()
    for strat, n in plan:
        if strat in ("UniGen", "UniformGen") and vps > 120:
            counters["unigen_skipped_large"] = 1
            continue
        if strat in ("IterateGen", "UniformGen") and not p.block.complex_factors_or_constraints:
            counters["delegates_to_random_skipped"] = counters.get("delegates_to_random_skipped", 0) + 1
            continue
        if strat in ("UniGen", "UniformGen"):
            # pyunigen is native code that can exit the process or run unboundedly: hard guard
            r, err, status = O.synth_guarded(p.spec, n, strat, 25)
            if status != "ok":
                counters["unigen_" + status] = 1
                continue
        else:
            b, _, e = O.construct(p.spec)
            if e:
                break
            r, err, out = O.synth(b, n, strat)
        if err:
            counters["raised_" + strat] = 1   # C08's subject, recorded here
            continue
        counters[strat.lower() + "_sequences"] = len(r)
        for s in r:
            judge(s, strat)
    # every model of the compiled formula
    try:
        models, complete, info = O.cnf_models(p.block, MODEL_CAP)
    except Exception as e:
        models, complete, info = [], False, {}
        counters["build_cnf_raised"] = 1
    if O.hard_errors(p.block):
        # every sampler prints the errors and returns [] for such a block: its formula is never sampled
        counters["blocks_with_errors_models_not_judged"] = 1
        models = []
    for lits, dec in models:
        judge(dec, "cnf-model")
    counters["cnf_models_judged"] = len(models)
    counters["sequences_judged"] = judged
    counters["sequences_judged_fully"] = full
    if full and full == judged:
        counters["designs_fully_judged"] = 1
    if p.fl.und:
        counters["R_undecided_designs"] = 1
    return {"nontrivial": full >= 2, "violations": viol, "counters": counters,
            "sample": {"spec": D.small(p.spec), "T": p.fl.T, "judged": judged, "cnf_models": len(models),
                       "models_complete": complete}}
