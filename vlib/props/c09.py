"""C09 — without-replacement samplers return distinct sequences, as many as exist.

Observed: the list returned by one synthesize_trials call for requested in {0, 1, 2, A-1, A, A+1, 3A} with
A = number of distinct solutions, for IterateSATGen, RandomGen and IterateGen, each call on a fresh block.
Oracle: len == min(requested, A); a printed sequence occurs at most as often as it has distinct solutions
(copies of weighted levels of factors outside the crossing, R.multiplicity), exactly that often when exhausted.
A comes from the reference model where it decides the design; otherwise from the strategy's own exhausted run
(then only consistency between request sizes and distinctness-by-print are checked, multiplicity 1 assumed only
when no weighted uncrossed factor exists).
"""
import collections
import json

from vlib import designs as D, observe as O, ref, predicates as P

ID = "C09"
RULE = ("cases = generated design specs K1-K11 with few solutions (A <= 80); per strategy 5-7 request sizes around "
        "A. non-trivial = A >= 2 known and at least 8 (strategy, request) calls were judged; distinct = spec hashes")
ASSUMPTIONS = ["reference model R decides A and copy multiplicities inside its decidable region"]
MINIMUMS = {"quick": {"calls_judged": 1200, "designs_with_A_ge_2": 50, "designs_with_copy_multiplicity": 2},
            "thorough": {"calls_judged": 4200, "designs_with_A_ge_2": 175, "designs_with_copy_multiplicity": 7}}
CASE_TIMEOUT = 200
CAP = 130
CLASSES = ["K1", "K2", "K12", "K2", "K3", "K4", "K12", "K5", "K5", "K6", "K12", "K7", "K8", "K9", "K12", "K10", "K11", "K12"]


def cases(tier, seed):
    out = D.spec_cases(tier, seed, CLASSES, 300, 1600, "c09")
    # appended classes of vlib/gen2.py (added after the generator freeze; see DESIGN.md 2.2)
    from vlib import gen2
    return out + gen2.appended(tier, seed, "c09", ['A1', 'A4', 'A3', 'A4'], 60, 360) + \
        gen2.appended(tier, seed, "c09r", ['A8'], 40, 160)


def run_case(case):
    p = D.prepare(case)
    if p.result:
        return p.result
    counters = p.counters
    want = D.ref_counter(p, CAP, node_cap=120000)
    viol = []
    judged = 0
    weighted_unc = P.has_weighted_uncrossed(case)
    if want is not None:
        A = sum(want.values())
        counters["A_from_R"] = 1
    else:
        A = None
    for strat in ("IterateSATGen", "RandomGen", "IterateGen"):
        a = A
        mult = want
        big = None
        if a is None:
            r, err, st = D.exhaust(p.spec, strat, CAP, 12)
            if st == "too_big":
                big = r
            if st != "ok" or err:
                counters["%s_%s" % (strat.lower(), st if st != "ok" else "raised")] = 1
                if big is None:
                    continue
            else:
                a = len(r)
            mult = None
        elif a > CAP:
            r, err, st = D.run_strategy(p.spec, strat, CAP + 1, 12)
            if st == "ok" and not err:
                big = r
                judged += 1
                if len(r) != CAP + 1:
                    viol.append({"kind": "wrong_count", "strategy": strat, "requested": CAP + 1, "available": a,
                                 "returned": len(r), "A_from_R": True,
                                 "msg": "%s asked for %d of %d available solutions returned %d" % (strat, CAP + 1, a, len(r))})
        if big is not None:
            # more sequences than the cap: a without-replacement sampler still may not repeat one
            if mult is not None or not weighted_unc:
                counters["big_designs_distinctness_checked"] = counters.get("big_designs_distinctness_checked", 0) + 1
                got = collections.Counter(O.seq_key(s) for s in big)
                for k, n in got.items():
                    lim = mult.get(k, 1) if mult is not None else 1
                    if n > lim:
                        viol.append({"kind": "duplicate", "strategy": strat, "requested": len(big), "available": a,
                                     "times": n, "distinct_solutions": lim,
                                     "msg": "%s (requested %d, more available) returned a printed sequence %d times, "
                                            "it has %d distinct solution(s): %s" % (strat, len(big), n, lim, k[:240])})
                        break
            continue
        reqs = sorted(set(x for x in (0, 1, 2, a - 1, a, a + 1, 3 * a) if x >= 0))
        for req in reqs:
            r, err, st = D.run_strategy(p.spec, strat, req, 12)
            if st != "ok" or err:
                counters["%s_%s" % (strat.lower(), st if st != "ok" else "raised")] = 1
                continue
            judged += 1
            exp = min(req, a)
            if len(r) != exp:
                viol.append({"kind": "wrong_count", "strategy": strat, "requested": req, "available": a,
                             "returned": len(r), "A_from_R": A is not None,
                             "direction": "more" if len(r) > exp else "fewer",
                             "msg": "%s asked for %d of %d available solutions returned %d" % (strat, req, a, len(r))})
                continue
            got = collections.Counter(O.seq_key(s) for s in r)
            for k, n in got.items():
                if mult is not None:
                    lim = mult.get(k, 0)
                    if k not in mult:
                        continue  # validity is C01/C04's subject
                elif not weighted_unc:
                    lim = 1
                else:
                    continue
                if n > lim or (req >= a and mult is not None and n != lim):
                    viol.append({"kind": "duplicate" if n > lim else "too_few_copies", "strategy": strat,
                                 "requested": req, "available": a, "times": n, "distinct_solutions": lim,
                                 "msg": "%s (requested %d of %d) returned a printed sequence %d times, it has %d "
                                        "distinct solutions: %s" % (strat, req, a, n, lim, k[:240])})
                    break
        if len(viol) > 4:
            break
    counters["calls_judged"] = judged
    if A is not None and A >= 2:
        counters["designs_with_A_ge_2"] = 1
    if want is not None and any(v > 1 for v in want.values()):
        counters["designs_with_copy_multiplicity"] = 1
    return {"nontrivial": (A or 0) >= 2 and judged >= 8, "violations": viol[:5], "counters": counters,
            "sample": {"spec": D.small(p.spec), "A": A, "calls_judged": judged}}
