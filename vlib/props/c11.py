"""C11 — formula-to-CNF conversions preserve meaning.

Observed: the (And, next_variable) pairs returned by the real to_cnf_tseitin / to_cnf_naive / to_cnf_switching and
the clause lists of cnf_to_json. Oracle: own recursive evaluator for the input formula; SAT / truth table for the
output, per assignment of the original variables.
"""
import itertools
import random

from vlib import formulas as F

ID = "C11"
LEVEL = "exploration"
RULE = ("cases = batches of formulas: (a) every formula of depth <= 1 over 3 variables incl. empty And/Or and negative "
        "literals, (b) sampled depth-2 compositions of those, (c) random formulas to depth 5 over <= 6 variables with "
        "shared subtrees, (d) formulas captured from real constraint compilers through Block.cnf_fn. Each formula is "
        "converted by all three converters and compared on ALL assignments of the original variables. non-trivial "
        "batch = >= 1 formula with a compound operator converted; distinct = distinct batches (formulas counted in "
        "counters.formulas_distinct)")
ASSUMPTIONS = ["pycryptosat answers SAT/UNSAT correctly", "own evaluator implements classical semantics of "
               "Not/And/Or/If/Iff with empty And = true, empty Or = false"]
MINIMUMS = {"quick": {"tseitin_checked": 1500, "naive_checked": 1000, "switching_checked": 1000,
                      "assignments_checked": 20000},
            "thorough": {"tseitin_checked": 60000, "naive_checked": 50000, "switching_checked": 50000,
                         "assignments_checked": 3000000}}
CASE_TIMEOUT = 240
BATCH = 60
NAIVE_MAX_SIZE = 22  # the naive/switching conversions are exponential by design


def cases(tier, seed):
    out = []
    d1 = len(F.enum_depth1(3))
    for i in range(0, d1, BATCH):
        out.append({"mode": "enum1", "lo": i, "hi": min(d1, i + BATCH), "cls": "enum-depth1"})
    nrand = 1500 if tier == "thorough" else 24
    nd2 = 300 if tier == "thorough" else 10
    for i in range(nd2):
        out.append({"mode": "enum2", "seed": seed * 1000 + i, "count": BATCH, "cls": "sample-depth2"})
    for i in range(nrand):
        out.append({"mode": "random", "seed": seed * 1000 + i, "count": BATCH, "depth": 2 + i % 4, "nv": 2 + i % 5,
                    "cls": "random-depth%d" % (2 + i % 4)})
    return out


def shape_flags(j):
    """Formula-shape predicates used to key known findings."""
    flags = {"not_over_compound_with_compound_child": False, "empty_junction": False, "not_over_compound": False}

    def compound(x):
        return not isinstance(x, int)

    def walk(x):
        if isinstance(x, int):
            return
        op = x[0]
        if op in ("and", "or"):
            if not x[1]:
                flags["empty_junction"] = True
            for y in x[1]:
                walk(y)
        elif op == "not":
            c = x[1]
            if compound(c):
                flags["not_over_compound"] = True
                kids = c[1] if c[0] in ("and", "or") else ([c[1]] if c[0] == "not" else [c[1], c[2]])
                if any(compound(k) for k in kids) or c[0] in ("if", "iff"):
                    flags["not_over_compound_with_compound_child"] = True
            walk(c)
        else:
            walk(x[1])
            walk(x[2])
    walk(j)
    return flags


def check_formula(j, nv, base, counters, viol, captured=False):
    """Runs the three converters on formula j (variables 1..nv, fresh from base)."""
    from sweetpea._internal import logic
    from vlib.satx import Sat
    spf = F.to_sp(j)
    assigns = list(F.all_assignments(range(1, nv + 1)))
    truth = [F.ev(j, a) for a in assigns]
    flags = shape_flags(j)
    small = F.size(j) <= NAIVE_MAX_SIZE
    if not small:
        counters["naive_skipped_large"] = counters.get("naive_skipped_large", 0) + 1
    for name in (("tseitin", "naive", "switching") if small else ("tseitin",)):
        fn = getattr(logic, "to_cnf_" + name)
        try:
            res, nxt = fn(F.to_sp(j), base)
        except Exception as e:
            viol.append(dict(kind="exception", converter=name, exc=type(e).__name__, formula=j,
                             msg="to_cnf_%s raised %s: %s on %s" % (name, type(e).__name__, str(e)[:120], j), **flags))
            counters[name + "_raised"] = counters.get(name + "_raised", 0) + 1
            continue
        try:
            rj = F.from_sp(res)
        except TypeError as e:
            viol.append(dict(kind="malformed_output", converter=name, formula=j, msg=str(e), **flags))
            continue
        used = F.vars_of(rj) if not (rj[0] == "and" and not rj[1]) else set()
        new = sorted(v for v in used if v > nv)
        if name == "naive":
            if new or nxt != base:
                viol.append(dict(kind="naive_new_vars", converter=name, formula=j,
                                 msg="naive conversion introduced variables %s / next %d != %d" % (new, nxt, base)))
            got = [F.ev(rj, a) for a in assigns] if not new else None
            if got is not None and got != truth:
                i = [x != y for x, y in zip(got, truth)].index(True)
                viol.append(dict(kind="not_equivalent", converter=name, formula=j,
                                 msg="naive result differs from the formula at %s: formula=%s result=%s; out=%s"
                                     % (assigns[i], truth[i], got[i], rj)))
            counters["naive_checked"] = counters.get("naive_checked", 0) + 1
            counters["assignments_checked"] = counters.get("assignments_checked", 0) + len(assigns)
            try:
                cj = logic.cnf_to_json([res])
                mine = F.as_clauses(rj)
                if mine is not None and cj != mine:
                    viol.append(dict(kind="cnf_to_json_mismatch", converter=name, formula=j,
                                     msg="cnf_to_json %s != clauses %s" % (cj, mine)))
            except Exception as e:
                counters["cnf_to_json_raised_on_naive_output"] = counters.get("cnf_to_json_raised_on_naive_output", 0) + 1
            continue
        # tseitin / switching: new variables must come from [base, nxt)
        outside = [v for v in new if not (base <= v < nxt)]
        if outside:
            viol.append(dict(kind="fresh_range", converter=name, formula=j,
                             msg="%s used new variables %s outside the reported fresh range [%d,%d)"
                                 % (name, outside, base, nxt)))
            continue
        if nxt < base:
            viol.append(dict(kind="fresh_range", converter=name, formula=j, msg="returned next %d < given %d" % (nxt, base)))
            continue
        clauses = F.as_clauses(rj)
        if name == "tseitin":
            if clauses is None:
                viol.append(dict(kind="not_cnf", converter=name, formula=j, msg="tseitin output is not in CNF shape: %s" % (rj,)))
                continue
            unused = [v for v in range(base, nxt) if v not in used]
            if unused:
                viol.append(dict(kind="fresh_range", converter=name, formula=j,
                                 msg="tseitin reports next=%d but never constrains variables %s (free => not unique)"
                                     % (nxt, unused)))
            try:
                cj = logic.cnf_to_json([res])
                if cj != clauses:
                    viol.append(dict(kind="cnf_to_json_mismatch", converter=name, formula=j,
                                     msg="cnf_to_json %s != clauses %s" % (cj, clauses)))
                counters["cnf_to_json_checked"] = counters.get("cnf_to_json_checked", 0) + 1
            except Exception as e:
                viol.append(dict(kind="exception", converter="cnf_to_json", exc=type(e).__name__, formula=j,
                                 msg="cnf_to_json raised %s on tseitin output" % type(e).__name__, **flags))
        nnew = nxt - base
        if clauses is not None:
            sat = Sat(clauses, max(nxt, nv + 1))
            act = max(nxt, nv + 1)
            for a, want in zip(assigns, truth):
                assum = [v if b else -v for v, b in a.items()]
                m = sat.solve(assum)
                if (m is not None) != want:
                    viol.append(dict(kind="not_equivalent", converter=name, formula=j,
                                     msg="%s: assignment %s: formula=%s but clauses are %s; clauses=%s"
                                         % (name, a, want, "SAT" if m is not None else "UNSAT", clauses[:12])))
                    break
                if name == "tseitin" and m is not None and nnew:
                    act += 1
                    sat.add([-act] + [(-v if m[v] else v) for v in range(base, nxt)])
                    m2 = sat.solve(assum + [act])
                    sat.add([-act])
                    if m2 is not None:
                        viol.append(dict(kind="not_unique", converter=name, formula=j,
                                         msg="tseitin: assignment %s has two extensions (differ on %s)"
                                             % (a, [v for v in range(base, nxt) if m[v] != m2[v]])))
                        break
            counters[name + "_checked"] = counters.get(name + "_checked", 0) + 1
            counters["assignments_checked"] = counters.get("assignments_checked", 0) + len(assigns)
        elif nnew <= 10:
            newvars = list(range(base, nxt))
            bad = None
            for a, want in zip(assigns, truth):
                got = False
                for bits in itertools.product([False, True], repeat=nnew):
                    aa = dict(a)
                    aa.update(zip(newvars, bits))
                    for v in used:
                        aa.setdefault(v, False)
                    if F.ev(rj, aa):
                        got = True
                        break
                if got != want:
                    bad = (a, want, got)
                    break
            if bad:
                viol.append(dict(kind="not_equivalent", converter=name, formula=j,
                                 msg="%s: at %s formula=%s, projected result=%s; out=%s" % (name, bad[0], bad[1], bad[2], rj)))
            counters[name + "_checked"] = counters.get(name + "_checked", 0) + 1
            counters[name + "_non_cnf_shape_outputs"] = counters.get(name + "_non_cnf_shape_outputs", 0) + 1
            counters["assignments_checked"] = counters.get("assignments_checked", 0) + len(assigns)
        else:
            counters[name + "_too_big_to_decide"] = counters.get(name + "_too_big_to_decide", 0) + 1


def run_case(case):
    counters = {}
    viol = []
    if case["mode"] == "enum1":
        fs = [(f, 3) for f in F.enum_depth1(3)[case["lo"]:case["hi"]]]
    elif case["mode"] == "enum2":
        rng = random.Random(case["seed"])
        fs = [(f, 3) for f in F.enum_depth2_sample(3, rng, case["count"])]
    else:
        rng = random.Random(case["seed"])
        fs = [(F.gen_random(rng, case["depth"], case["nv"]), case["nv"]) for _ in range(case["count"])]
    rng2 = random.Random(repr(case))
    distinct = set()
    compound = 0
    for f, nv in fs:
        key = repr(f)
        if key in distinct:
            continue
        distinct.add(key)
        if F.size(f) > 1:
            compound += 1
        base = nv + 1 + rng2.choice([0, 0, 0, 3])
        check_formula(f, nv, base, counters, viol)
    counters["formulas_distinct"] = len(distinct)
    # one violation per (kind, converter, exc, flags) per batch is enough to report
    seen = set()
    vout = []
    for v in viol:
        k = (v["kind"], v.get("converter"), v.get("exc"), v.get("not_over_compound_with_compound_child"),
             v.get("empty_junction"))
        if k in seen:
            continue
        seen.add(k)
        vout.append(v)
    return {"nontrivial": compound >= 1, "violations": vout, "counters": counters,
            "sample": {"case": case, "first_formulas": [f for f, _ in fs[:3]], "counters": counters}}
