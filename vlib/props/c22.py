"""C22 — continuous factors respect their constraints, inputs and windows.

Observed: synthesize_trials on generated flat designs with 1-4 ContinuousFactors whose CustomDistribution functions
are recording probes (vlib/cont.py): independent factors return process-wide unique numbers, dependent / windowed
factors return a deterministic function of their arguments, so the returned values identify the calls (and the
attempt) that produced them; constraint predicates are probes too. Built-in distributions are observed through
their value ranges.
Oracle per returned sequence: one value per trial for every continuous factor; every ContinuousConstraint holds on
the returned values at every trial; a dependent factor equals its function of the same sequence's values at the
same trial; a windowed dependency equals its function of {0: v[t], -1: v[t-1], ...} of the same sequence, NaN where
t < start, the stride skips t, or history is missing; cumulative distributions restart per sequence; fresh values of
one sequence come from one attempt (increasing, none shared with another sequence); the discrete part is R-valid.
"""
import random

from vlib import designs as D, observe as O, ref, gen, cont, spec as S

ID = "C22"
RULE = ("cases = generated flat designs (K1/K3/K5-like, T <= 8) + 1-4 continuous factors (built-in, fresh, "
        "dependent on discrete/continuous factors, ContinuousFactorWindow width 1-3 / stride 1-2 / start None, "
        "early, late; cumulative) + 0-2 ContinuousConstraints, 2-3 sequences by RandomGen or IterateSATGen. "
        "non-trivial = >= 2 sequences returned with a dependent or windowed or constrained factor; distinct = case")
ASSUMPTIONS = ["discrete part judged by the reference model R", "probe functions are deterministic in their arguments"]
MINIMUMS = {"quick": {"sequences_judged": 500, "window_factors_judged": 120, "dependent_factors_judged": 120, "constraints_judged": 120, "resampled_sequences": 60},
            "thorough": {"sequences_judged": 1750, "window_factors_judged": 420, "dependent_factors_judged": 420, "constraints_judged": 420, "resampled_sequences": 210}}
CASE_TIMEOUT = 40


def gen_cspec(rng):
    base = gen.gen_flat(rng, rng.choice(["K1", "K1", "K3", "K5"]), max_size=6)
    disc = [n for n in base["block"]["design"]]
    cfs = []
    names = []
    k = rng.randint(1, 4)
    for i in range(k):
        n = "C%d" % i
        kinds = ["fresh", "fresh", "uniform", "gauss", "expo", "lognorm", "cumul"]
        if names:
            kinds += ["dep", "dep", "win", "win", "win"]
        else:
            kinds += ["dep"]
        kind = rng.choice(kinds)
        cf = {"name": n, "kind": kind}
        if kind == "uniform":
            cf["low"], cf["high"] = 1.0, 5.0
        elif kind == "gauss":
            cf["mean"], cf["sigma"] = 10.0, 2.0
        elif kind == "expo":
            cf["rate"] = 1.5
        elif kind == "lognorm":
            cf["mean"], cf["sigma"] = 0.0, 0.5
        elif kind == "dep":
            pool = [d for d in disc if base["factors"][d]["kind"] == "basic"] + names
            cf["deps"] = rng.sample(pool, min(len(pool), rng.choice([1, 1, 2])))
        elif kind == "win":
            w = rng.choice([1, 2, 2, 3])
            cf["win"] = {"factors": rng.sample(names, min(len(names), rng.choice([1, 1, 2]))), "width": w,
                         "stride": rng.choice([1, 1, 2]), "start": rng.choice([None, None, 0, 1, w, w + 1])}
        cfs.append(cf)
        names.append(n)
    ccons = []
    fresh = [c["name"] for c in cfs if c["kind"] == "fresh"]
    for _ in range(rng.choice([0, 1, 1, 2]) if fresh else 0):
        # a constraint must stay satisfiable by resampling: it always involves a factor with fresh randomness
        fs = [rng.choice(fresh)]
        others = [n for n in names if n != fs[0] and next(c for c in cfs if c["name"] == n)["kind"] in ("fresh", "dep", "win", "cumul")]
        if others and rng.random() < 0.4:
            fs.append(rng.choice(others))
            rng.shuffle(fs)
        ccons.append({"factors": fs, "mod": rng.choice([3, 4, 5]), "rem": rng.randrange(3)})
    return {"base": base, "cont": cfs, "ccons": ccons}


def cases(tier, seed):
    n = 1700 if tier == "thorough" else 330
    out = []
    for i in range(n):
        rng = random.Random("c22/%s/%d" % (seed, i))
        out.append({"cls": "cont", "cspec": gen_cspec(rng), "strategy": rng.choice(["RandomGen", "RandomGen", "IterateSATGen"]),
                    "n": rng.choice([2, 3])})
    return out


def run_case(case):
    import math
    import sweetpea as sp
    cspec = case["cspec"]
    counters = {}
    r, err, out = O.quiet(cont.build, cspec)
    if err:
        return {"nontrivial": False, "violations": [], "counters": {"rejected_by_constructor": 1},
                "notes": [err["exc"] + ": " + err["msg"][:100]]}
    block, probes = r
    fl = ref.analyze(cspec["base"])
    exps, err, out = O.quiet(sp.synthesize_trials, block, case["n"], getattr(sp, case["strategy"]))
    viol = []
    if err:
        # an exception is C08's subject; this property speaks about returned sequences
        return {"nontrivial": False, "violations": viol, "counters": {"raised": 1}}
    if not exps:
        return {"nontrivial": False, "violations": [], "counters": {"no_sequences": 1}}
    T = block.trials_per_sample()
    user = S.tree_design(cspec["base"]["block"])
    seen_fresh = set()
    for ei, e in enumerate(exps):
        why = cont.check_sequence(cspec, e, T)
        for cf in cspec["cont"]:
            if cf["kind"] == "fresh" and cf["name"] in e:
                vs = set(e[cf["name"]])
                if vs & seen_fresh:
                    why.append("%s: values shared with another returned sequence" % cf["name"])
                seen_fresh |= vs
        disc = {k: v for k, v in e.items() if k in user}
        if not (fl.ctor_err or fl.und_T or fl.und or fl.T is None):
            rr = ref.valid(cspec["base"], fl, disc)
            if rr:
                why.append("discrete part invalid: " + rr[0])
        extra = [k for k in e if k not in user and k not in [c["name"] for c in cspec["cont"]]]
        if extra:
            why.append("unexpected keys %s" % extra)
        if why:
            viol.append({"kind": "continuous_invalid", "strategy": case["strategy"],
                         "msg": "experiment %d: %s ; sequence=%s" % (ei, "; ".join(why[:2])[:500], str(e)[:300])})
            break
    counters["sequences_judged"] = len(exps)
    kinds = [c["kind"] for c in cspec["cont"]]
    counters["window_factors_judged"] = kinds.count("win") * len(exps)
    counters["dependent_factors_judged"] = kinds.count("dep") * len(exps)
    counters["constraints_judged"] = len(cspec["ccons"]) * len(exps)
    # a rejected attempt leaves calls in the probe log that are not in the result
    fresh_returned = sum(len(e[c["name"]]) for e in exps for c in cspec["cont"] if c["kind"] == "fresh")
    fresh_calls = sum(1 for c in probes.calls if c[1] == () and any(cf["name"] == c[0] and cf["kind"] == "fresh" for cf in cspec["cont"]))
    if fresh_calls > fresh_returned:
        counters["resampled_sequences"] = 1
    interesting = ("win" in kinds or "dep" in kinds or cspec["ccons"])
    return {"nontrivial": len(exps) >= 2 and bool(interesting), "violations": viol, "counters": counters,
            "sample": {"continuous": cspec["cont"], "constraints": cspec["ccons"], "T": T,
                       "experiment": {k: v for k, v in exps[0].items()}}}
