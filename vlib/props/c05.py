"""C05 — RandomGen samples uniformly: one candidate per valid sequence.

Observed: the complete tree of random draws of one RandomGen.sample(block, 1) call. random.randrange (the only
source of randomness RandomGen uses) is replaced in the `random` module by a scripted chooser that replays a prefix
of choices, takes option 0 afterwards and records every draw's range; an odometer over the *recorded* ranges walks
all leaves. A leaf is one candidate: accepted when the call returns a sequence, rejected when RandomGen starts to
draw a second candidate (counting wrapper on UCSolutionEnumerator.generate_random_samples, the walk is cut there).
Oracle: (a) accepted leaves -> returned sequences is injective; (b) its image equals the reference model's valid
set; (c) all leaves have the same path probability (product of 1/range): the candidate choices are equally likely;
(d) the number of leaves equals preamble_count * solution_count^rounds * leftover_count, the bound RandomGen uses to
decide exhaustion.
"""
import random
from fractions import Fraction

from vlib import designs as D, observe as O, ref, gen, predicates as P, spec as S

ID = "C05"
RULE = ("cases = generated flat designs K1-K7 (weights on crossed factors, uncrossed source factors of crossed "
        "derived factors with unequal numbers of completions, MinimumTrials leftovers, transition preambles, "
        "rejection by constraints) without weighted factors outside the crossing, R-decidable, with a draw tree of "
        "<= MAX_LEAVES leaves. non-trivial = whole tree walked, >= 2 accepted leaves; distinct = spec hashes")
ASSUMPTIONS = ["reference model R decides the valid set", "random.randrange is RandomGen's only source of randomness",
               "designs with a weighted basic factor outside the crossing are left to C06/C09 (copies are distinct "
               "solutions that print identically)"]
MINIMUMS = {"quick": {"trees_walked": 150, "leaves_walked": 40000, "accepted_leaves": 12000, "trees_with_rejection": 50,
                      "trees_with_leftover_or_weights": 25},
            "thorough": {"trees_walked": 2000, "leaves_walked": 1000000, "accepted_leaves": 300000,
                         "trees_with_rejection": 700, "trees_with_leftover_or_weights": 350}}
CASE_TIMEOUT = 240
MAX_LEAVES = 6000
CLASSES = ["K1", "K2", "K3", "K4", "K5", "K6", "K6", "K7", "K12", "K12", "K12"]


class Cut(BaseException):
    pass


def cases(tier, seed):
    n = 6000 if tier == "thorough" else 520
    out = []
    for i, (cls, sp) in enumerate(gen.stream(seed, n, CLASSES, "c05")):
        out.append({"cls": cls, "spec": sp, "max_leaves": 30000 if tier == "thorough" else MAX_LEAVES})
    # appended classes of vlib/gen2.py (added after the generator freeze)
    from vlib import gen2
    for c in gen2.appended(tier, seed, "c05", ["A7", "A4", "A7", "A2"], 80, 600):
        c["max_leaves"] = 30000 if tier == "thorough" else MAX_LEAVES
        out.append(c)
    return out


def run_case(case):
    import random as random_module
    from sweetpea._internal.sampling_strategy import random as rmod
    p = D.prepare(case)
    if p.result:
        return p.result
    counters = p.counters
    if P.has_weighted_uncrossed(case):
        counters["skipped_weighted_uncrossed"] = 1
        return {"nontrivial": False, "violations": [], "counters": counters}
    want = D.ref_counter(p, 3000, node_cap=150000)
    if want is None:
        counters["undecided_or_too_big"] = 1
        return {"nontrivial": False, "violations": [], "counters": counters}
    if p.block.trials_per_sample() != p.fl.T or O.hard_errors(p.block):
        counters["T_differs_or_block_errors"] = 1
        return {"nontrivial": False, "violations": [], "counters": counters}
    block = p.block
    # one enumerator per block: its construction draws nothing and is the slow part
    enum_cache = {}
    real_enum = rmod.UCSolutionEnumerator
    episodes = [0]

    def factory(b):
        if id(b) not in enum_cache:
            e = real_enum(b)
            orig = e.generate_random_samples

            def grs(n, leftover, sampled, _orig=orig):
                episodes[0] += 1
                if episodes[0] > 1:
                    raise Cut()
                return _orig(n, leftover, {})
            e.generate_random_samples = grs
            enum_cache[id(b)] = e
        return enum_cache[id(b)]

    script = []
    trace = []

    def scripted_randrange(start, stop=None, step=1):
        if stop is None:
            start, stop = 0, start
        n = stop - start
        i = len(trace)
        v = script[i] if i < len(script) else 0
        trace.append((v, n))
        return start + v

    real_rr = random_module.randrange
    rmod.UCSolutionEnumerator = factory
    random_module.randrange = scripted_randrange
    leaves = 0
    accepted = {}
    probs_acc = set()
    probs_all = set()
    viol = []
    err = None
    too_big = False
    try:
        while True:
            trace.clear()
            episodes[0] = 0
            res = None
            try:
                res, err, out = O.quiet(rmod.RandomGen.sample, block, 1)
            except Cut:
                res = "cut"
            if err:
                break
            if res != "cut" and not res.samples and not trace:
                break  # RandomGen found no candidate at all (solution count 0): nothing was drawn
            leaves += 1
            pr = Fraction(1)
            for v, n in trace:
                pr *= Fraction(1, n)
            probs_all.add(pr)
            if res != "cut":
                if len(res.samples) > 1:
                    viol.append({"kind": "no_sample", "msg": "RandomGen.sample(block, 1) returned %d samples" % len(res.samples)})
                    break
            if res != "cut" and res.samples:
                seq = block.add_implied_levels(res.samples[0])
                seq = {k: v for k, v in seq.items() if isinstance(k, str) and k in p.user}
                key = O.seq_key(seq)
                path = tuple(v for v, n in trace)
                if key in accepted:
                    viol.append({"kind": "two_candidates_one_sequence",
                                 "msg": "candidates %s and %s both produce %s" % (accepted[key], path, key[:300])})
                    break
                accepted[key] = path
                probs_acc.add(pr)
            # odometer on the recorded ranges
            k = len(trace) - 1
            while k >= 0 and trace[k][0] + 1 >= trace[k][1]:
                k -= 1
            if k < 0:
                break
            script[:] = [v for v, n in trace[:k]] + [trace[k][0] + 1]
            if leaves >= case.get("max_leaves", MAX_LEAVES):
                too_big = True
                break
    finally:
        random_module.randrange = real_rr
        rmod.UCSolutionEnumerator = real_enum
    if err:
        counters["randomgen_raised"] = 1
        return {"nontrivial": False, "violations": [], "counters": counters}
    if too_big:
        counters["tree_too_big"] = 1
        return {"nontrivial": False, "violations": viol, "counters": counters}
    counters["trees_walked"] = 1
    counters["leaves_walked"] = leaves
    counters["accepted_leaves"] = len(accepted)
    if leaves > len(accepted):
        counters["trees_with_rejection"] = 1
    e = next(iter(enum_cache.values())) if enum_cache else None
    if not viol:
        got = set(accepted)
        wantset = set(want)
        if got != wantset:
            extra, missing = sorted(got - wantset), sorted(wantset - got)
            why = D.check_valid(p, __import__("json").loads(extra[0]))[0] if extra else []
            viol.append({"kind": "candidates_vs_valid_set", "n_extra": len(extra), "n_missing": len(missing),
                         "msg": "%d accepted candidates, %d valid sequences; accepted but invalid: %s (%s) ; valid but "
                                "never produced: %s" % (len(got), len(wantset), (extra[:1] or [""])[0][:200], "; ".join(why[:1])[:150],
                                                        (missing[:1] or [""])[0][:200])})
    if e is not None and not viol:
        T = block.trials_per_sample()
        rounds = (T - e._preamble_size) // e.crossing_size
        leftover = (T - e._preamble_size) % e.crossing_size
        possible = e.preamble_solution_count() * pow(e.solution_count(), rounds) * e.leftover_solution_count()
        if leftover or not e._crossing_is_unweighted:
            counters["trees_with_leftover_or_weights"] = 1
        if possible != leaves:
            viol.append({"kind": "candidate_count", "leaves": leaves, "claimed": possible,
                         "msg": "the draw tree has %d candidates, RandomGen's exhaustion bound is %d" % (leaves, possible)})
        if len(probs_all) > 1:
            lo, hi = min(probs_all), max(probs_all)
            viol.append({"kind": "unequal_candidate_probability", "ratio": float(hi / lo), "leftover": leftover,
                         "weighted": not e._crossing_is_unweighted, "distinct_probabilities": len(probs_all),
                         "msg": "candidates are not equally likely: path probabilities range from %s to %s (%d distinct "
                                "values; leftover=%d, weighted crossing=%s)" % (lo, hi, len(probs_all), leftover, not e._crossing_is_unweighted)})
    return {"nontrivial": len(accepted) >= 2, "violations": viol, "counters": counters,
            "sample": {"spec": D.small(p.spec), "T": p.fl.T, "leaves": leaves, "accepted": len(accepted),
                       "valid_sequences": len(want), "distinct_path_probabilities": [str(x) for x in sorted(probs_all)][:4]}}
