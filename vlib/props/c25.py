"""C25 — Nest holds outer levels fixed over each inner run.

Observed: trials_per_sample() and the exhausted IterateSATGen / RandomGen sets of generated Nest designs (outer:
crossed basic factor, optional Sequential / Pin / ExactlyK; inner: constrained CrossBlock, possibly sharing the outer
factor or a derived factor over it; nested Nest in both association orders).
Oracle, written from the statement and applied to every returned sequence: length = T_outer * T_inner (no preamble
trials); consecutive groups of T_inner trials; the outer block's crossed factors are constant inside each group; one
trial per group forms a valid sequence of the outer block alone; every group is a valid sequence of the inner block
alone (validity of the parts by the reference model on the sub-block's spec). When the Nest has no constraints of
its own and the product construction is small, the returned set must equal {outer valid} x {inner valid}^groups
(restricted to consistent shared factors). Associativity: Nest(a, Nest(b, c)) and Nest(Nest(a, b), c) have equal sets.
"""
import copy
import itertools
import random

from vlib import designs as D, observe as O, ref, gen, spec as S

ID = "C25"
RULE = ("cases = generated Nest specs (K11): 'flat' nests and 'assoc' pairs (same three blocks nested right and "
        "left); 'nest_dx': the outer block crosses a within-trial derived factor over uncrossed sources. non-trivial = constructed, no preamble, both parts R-decidable, sampler exhausted (<= CAP) and every "
        "sequence judged; distinct = spec hashes")
ASSUMPTIONS = ["validity of the outer and inner block *alone* is decided by the reference model on that sub-block"]
MINIMUMS = {"quick": {"sequences_judged": 2500, "designs_judged": 45, "product_sets_compared": 15, "assoc_pairs_compared": 6},
            "thorough": {"sequences_judged": 8750, "designs_judged": 157, "product_sets_compared": 52, "assoc_pairs_compared": 21}}
CASE_TIMEOUT = 200
CAP = 500


def cases(tier, seed):
    n = 750 if tier == "thorough" else 150
    out = []
    for i in range(n):
        rng = random.Random("c25/%s/%d" % (seed, i))
        if i % 3 == 2:
            sp = gen.gen_nest(rng, deep=True)
            t = sp["block"]
            if t["outer"]["op"] == "nest":      # left form ((a,b),c)
                a, b, c = t["outer"]["outer"], t["outer"]["inner"], t["inner"]
            elif t["inner"]["op"] == "nest":    # right form (a,(b,c))
                a, b, c = t["outer"], t["inner"]["outer"], t["inner"]["inner"]
            else:
                continue
            left = copy.deepcopy(sp)
            left["block"] = {"op": "nest", "outer": {"op": "nest", "outer": a, "inner": b, "cons": []}, "inner": c, "cons": []}
            right = copy.deepcopy(sp)
            right["block"] = {"op": "nest", "outer": a, "inner": {"op": "nest", "outer": b, "inner": c, "cons": []}, "cons": []}
            out.append({"cls": "assoc", "kind": "assoc", "spec_a": left, "spec_b": right})
        else:
            out.append({"cls": "nest", "kind": "nest", "spec": gen.gen_nest(rng, deep=False)})
    # appended (round 4): the outer block crosses a within-trial DERIVED factor whose sources are in the outer design
    # but not in its crossing (sustain count 1), optionally together with a basic factor
    for i in range(n // 5):
        rng = random.Random("c25dx/%s/%d" % (seed, i))
        out.append({"cls": "nest_dx", "kind": "nest", "all_offsets": True, "no_product": True, "spec": gen_nest_dx(rng)})
    return out


def gen_nest_dx(rng):
    spec = {"factors": {}, "order": [], "block": None}
    for i in range(4):
        spec["factors"]["F%d" % i] = gen._basic(rng, i, False, nl=rng.choice([2, 2, 3]) if i < 2 else 2)
        spec["order"].append("F%d" % i)
    deps = ["F0", "F1"] if rng.random() < 0.7 else ["F0"]
    gen.add_derived(rng, spec, "D0", "within", deps=deps, else_level=False)
    nl = len(spec["factors"]["D0"]["levels"])
    keys = sorted(spec["factors"]["D0"]["table"])
    for j, k in enumerate(rng.sample(keys, len(keys))):     # every derived level is producible
        if j < nl:
            spec["factors"]["D0"]["table"][k] = j
    odesign = deps + ["D0"]
    ocross = ["D0"]
    if rng.random() < 0.5:
        odesign.append("F2")
        ocross.append("F2")
    rng.shuffle(odesign)

    def cross(design, crossing):
        return {"op": "cross", "design": design, "crossings": [crossing], "cons": [], "rcc": True,
                "mode": "weight", "align": "equal", "ctor": "CrossBlock"}
    inner = cross(["F3"], ["F3"])
    if rng.random() < 0.3:
        inner["cons"].append({"type": "MinimumTrials", "trials": 3})
    spec["block"] = {"op": "nest", "outer": cross(odesign, ocross), "inner": inner, "cons": []}
    return spec


def sub(spec, tree):
    return {"factors": spec["factors"], "order": spec["order"], "block": tree}


def judge(spec, seq, fo, fi, so, si, To, Ti, all_offsets=False):
    """reasons why seq breaks the statement"""
    names = list(seq)
    L = len(seq[names[0]])
    if any(len(v) != To * Ti for v in seq.values()):
        return ["length %s, outer trial count %d x inner trial count %d" % ({k: len(v) for k, v in seq.items()}, To, Ti)]
    crossed_outer = [n for c in fo.crossings for n in c["names"]]
    for g in range(To):
        grp = {n: seq[n][g * Ti:(g + 1) * Ti] for n in names}
        for n in crossed_outer:
            if len(set(grp[n])) != 1:
                return ["outer crossed factor %s changes inside group %d: %s" % (n, g, grp[n])]
        gi = {n: grp[n] for n in fi.design}
        r = ref.valid(si, fi, gi)
        if r:
            return ["group %d is not a valid inner sequence: %s" % (g, r[0])]
    # all_offsets (outer blocks without constraints of their own): the k-th trial of every group, for each k, is a
    # valid outer sequence as well - the crossing holds over the groups and within-trial derivations hold on every trial
    for k in (range(Ti) if all_offsets else [0]):
        proj = {n: seq[n][k::Ti] for n in fo.design}
        r = ref.valid(so, fo, proj)
        if r:
            return ["trial %d of each group is not a valid outer sequence: %s" % (k, r[0])]
    return []


def run_nest(case):
    spec = case["spec"]
    tree = spec["block"]
    b, pool, e = O.construct(spec)
    if e:
        return {"nontrivial": False, "violations": [], "counters": {"rejected_by_constructor": 1}}
    counters = {}
    so, si = sub(spec, tree["outer"]), sub(spec, tree["inner"])
    fo, fi = ref.analyze(so), ref.analyze(si)
    for f in (fo, fi):
        if f.ctor_err or f.und_T or f.und or f.T is None or f.geo[1] != 0 or any(c["p"] for c in f.crossings):
            counters["parts_undecided_or_preamble"] = 1
            return {"nontrivial": False, "violations": [], "counters": counters}
    if any(S.is_complex(spec, n) for n in S.tree_design(tree)):
        counters["parts_undecided_or_preamble"] = 1
        return {"nontrivial": False, "violations": [], "counters": counters}
    To, Ti = fo.T, fi.T
    viol = []
    T = b.trials_per_sample()
    if T != To * Ti:
        viol.append({"kind": "nest_trial_count", "msg": "trials_per_sample() = %d, outer %d x inner %d" % (T, To, Ti)})
    judged = 0
    sets = {}
    for strat in ("IterateSATGen", "RandomGen"):
        r, err, st = D.exhaust(spec, strat, CAP, 60 if strat == "IterateSATGen" else 10)
        if err or st not in ("ok", "too_big"):
            counters["%s_%s" % (strat.lower(), st if not err else "raised")] = 1
            continue
        if st == "ok":
            sets[strat] = set(O.seq_key(s) for s in r)
        for s in r[:CAP]:
            judged += 1
            why = judge(spec, s, fo, fi, so, si, To, Ti, case.get("all_offsets", False))
            if why:
                viol.append({"kind": "nest_structure", "strategy": strat,
                             "msg": "%s returned %s ; %s" % (strat, O.seq_key(s)[:300], why[0][:300])})
                break
    counters["sequences_judged"] = judged
    if judged:
        counters["designs_judged"] = 1
    # product construction
    if not tree["cons"] and "IterateSATGen" in sets and not case.get("no_product"):
        ro = ref.enumerate_valid(so, fo, cap=200, node_cap=60000)
        ri = ref.enumerate_valid(si, fi, cap=200, node_cap=60000)
        if ro is not None and ri is not None and len(ro) * (len(ri) ** To) <= 4 * CAP:
            shared = [n for n in fo.design if n in fi.design]
            names = S.tree_design(tree)
            prod = set()
            for o in ro:
                per_group = []
                for g in range(To):
                    per_group.append([s for s in ri if all(all(v == o[n][g] for v in s[n]) for n in shared)])
                for combo in itertools.product(*per_group):
                    seq = {}
                    for n in names:
                        if n in fi.design:
                            seq[n] = [v for s in combo for v in s[n]]
                        else:
                            seq[n] = [o[n][g] for g in range(To) for _ in range(Ti)]
                    prod.add(O.seq_key(seq))
            counters["product_sets_compared"] = 1
            for strat, got in sets.items():
                if got != prod:
                    oa, ob = sorted(got - prod), sorted(prod - got)
                    viol.append({"kind": "product_differs", "strategy": strat, "n_returned": len(got), "n_product": len(prod),
                                 "msg": "%s exhausted to %d sequences, the product construction has %d; only returned: %s ; "
                                        "only in product: %s" % (strat, len(got), len(prod), (oa[:1] or [""])[0][:200], (ob[:1] or [""])[0][:200])})
    return {"nontrivial": judged > 0, "violations": viol[:4], "counters": counters,
            "sample": {"spec": D.small(spec), "T_outer": To, "T_inner": Ti, "sequences_judged": judged}}


def run_assoc(case):
    res = []
    counters = {}
    for k in ("spec_a", "spec_b"):
        b, pool, e = O.construct(case[k])
        if e:
            res.append(("ctor", e))
            continue
        r, err, st = D.exhaust(case[k], "IterateSATGen", CAP, 60)
        if err:
            res.append(("raised", err))
        elif st != "ok":
            res.append((st, None))
        else:
            res.append(("ok", (b.trials_per_sample(), set(O.seq_key(s) for s in r))))
    viol = []
    (sa, va), (sb, vb) = res
    if sa == "ok" and sb == "ok":
        counters["assoc_pairs_compared"] = 1
        if va[0] != vb[0]:
            viol.append({"kind": "assoc_trial_count", "msg": "Nest(Nest(a,b),c) has %d trials, Nest(a,Nest(b,c)) %d" % (va[0], vb[0])})
        if va[1] != vb[1]:
            oa, ob = sorted(va[1] - vb[1]), sorted(vb[1] - va[1])
            viol.append({"kind": "assoc_sets_differ", "msg": "left-nested %d sequences, right-nested %d; only left %s ; only right %s"
                                                             % (len(va[1]), len(vb[1]), (oa[:1] or [""])[0][:200], (ob[:1] or [""])[0][:200])})
    elif (sa in ("ctor", "raised")) != (sb in ("ctor", "raised")) and "too_big" not in (sa, sb) and "timeout" not in (sa, sb):
        bad = va if sa in ("ctor", "raised") else vb
        viol.append({"kind": "assoc_one_side_fails", "exc": bad["exc"], "func": bad["func"],
                     "msg": "one association order fails (%s: %s), the other works" % (bad["exc"], bad["msg"][:150])})
    else:
        counters["assoc_not_compared"] = 1
    return {"nontrivial": sa == "ok" and sb == "ok", "dkey": S.spec_hash(case["spec_a"]), "violations": viol, "counters": counters,
            "sample": {"left": D.small(case["spec_a"])["block"], "n": len(va[1]) if sa == "ok" else None}}


def run_case(case):
    return run_assoc(case) if case["kind"] == "assoc" else run_nest(case)
