"""C04 — RandomGen returns only valid trial sequences (also through IterateGen / UniformGen when they delegate).

Observed: synthesize_trials(block, n, RandomGen) on freshly built blocks: exhausted when the design is small,
otherwise N_SAMPLES draws. Oracle: R.valid on every returned sequence; necessary conditions on UNDECIDED designs.
"""
from vlib import designs as D, observe as O

ID = "C04"
RULE = ("cases = generated design specs K1-K11; RandomGen (and IterateGen/UniformGen on designs where they delegate "
        "to it) is asked for CAP+1 sequences, every returned sequence is judged by R. non-trivial = constructed, "
        "RandomGen returned >= 2 sequences and R decides validity fully; distinct = distinct spec hashes")
ASSUMPTIONS = ["reference model R (vlib/ref.py) is the documented semantics inside its decidable region"]
MINIMUMS = {"quick": {"sequences_judged_fully": 3000, "designs_fully_judged": 90, "designs_with_rejection": 20},
            "thorough": {"sequences_judged_fully": 10500, "designs_fully_judged": 315, "designs_with_rejection": 70}}
CASE_TIMEOUT = 120
CAP = 250


def cases(tier, seed):
    out = D.spec_cases(tier, seed, None, 400, 2200, "c04")
    # appended classes of vlib/gen2.py (added after the generator freeze; see DESIGN.md 2.2)
    from vlib import gen2
    return out + gen2.appended(tier, seed, "c04", ['A1', 'A2', 'A3', 'A4'], 72, 440)


def run_case(case):
    p = D.prepare(case)
    if p.result:
        return p.result
    counters = p.counters
    viol = []
    judged = full = 0
    seen = set()
    plan = [("RandomGen", CAP + 1)]
    if not p.block.complex_factors_or_constraints:
        plan += [("IterateGen", 3), ("UniformGen", 3)]
    else:
        counters["designs_with_rejection"] = 1
    for strat, n in plan:
        r, err, st = D.run_strategy(p.spec, strat, n, 12)
        if st != "ok":
            counters["%s_%s" % (strat.lower(), st)] = 1
            continue
        if err:
            counters["raised_" + strat] = 1
            continue
        counters[strat.lower() + "_sequences"] = len(r)
        for s in r:
            reasons, decided = D.check_valid(p, s)
            judged += 1
            full += int(decided)
            if reasons:
                v = D.invalid_violation(strat, s, reasons, decided=decided)
                key = (strat, v["reason_class"], v["constraint_type"])
                if key not in seen and len(viol) < 5:
                    seen.add(key)
                    viol.append(v)
    counters["sequences_judged"] = judged
    counters["sequences_judged_fully"] = full
    if full and full == judged:
        counters["designs_fully_judged"] = 1
    return {"nontrivial": full >= 2, "violations": viol, "counters": counters,
            "sample": {"spec": D.small(p.spec), "T": p.fl.T, "judged": judged}}
