"""C08 — synthesis never fails internally on an accepted design.

Observed: whatever escapes synthesize_trials(block, n, G) for G in IterateSATGen, RandomGen, CMSGen, UniGen and
n in {0, 1, 3} on every design the constructors accept (type, message, innermost sweetpea frame); for UniGen also
whether the interpreter survives the call (the call runs in a forked child).
Oracle: the call returns a list.
"""
import random

from vlib import designs as D, observe as O, spec as S

ID = "C08"
RULE = ("cases = generated design specs K1-K11 with boundary k / index values, contradictory constraints, single "
        "trial blocks; each accepted design is synthesized with the four strategies and a request of 0, 1 or 3 "
        "sequences. non-trivial = constructor accepted and at least three strategy calls completed (returned or "
        "raised); distinct = distinct spec hashes")
ASSUMPTIONS = ["a predicate that is called outside its documented argument domain raises PredicateDomainError in "
               "the harness; such an exception is charged to the library (it called the predicate)"]
MINIMUMS = {"quick": {"calls_completed": 1300, "designs_accepted": 340, "unigen_calls_completed": 250},
            "thorough": {"calls_completed": 4550, "designs_accepted": 1190, "unigen_calls_completed": 875}}
CASE_TIMEOUT = 100
MAX_INCONCLUSIVE_FRACTION = 0.3


def nest_with_windows(rng):
    """appended stream: Nest / Repeat / Merge around blocks with transition or window factors (preambles inside
    combinators), explicit alignments — shapes the reference model leaves undecided but that must not crash"""
    from vlib import gen
    spec = {"factors": {}, "order": [], "block": None}
    for i in range(3):
        spec["factors"]["F%d" % i] = gen._basic(rng, i, False, nl=2 if i else rng.choice([2, 3]))
        spec["order"].append("F%d" % i)
    gen.add_derived(rng, spec, "T0", rng.choice(["transition", "transition", "window"]), deps=[rng.choice(["F1", "F2"])], else_level=None)
    if S.stride(spec, "T0") > 1:
        spec["factors"]["T0"]["win"][2] = 1

    def cross(design, crossing, cons):
        return {"op": "cross", "design": design, "crossings": [crossing], "cons": cons, "rcc": rng.random() < 0.5,
                "mode": "weight", "align": "equal", "ctor": "CrossBlock"}
    dep = spec["factors"]["T0"]["deps"][0]
    inner_design = [dep, "T0"] + ([("F2" if dep == "F1" else "F1")] if rng.random() < 0.5 else [])
    icross = rng.choice([[dep], ["T0"], [dep, "T0"]])
    icons = [gen.gen_constraint(rng, spec, inner_design, 4, types=gen.RUN_TYPES + ["Pin"])] if rng.random() < 0.4 else []
    inner = cross(inner_design, icross, icons)
    outer = cross(["F0"], ["F0"], [])
    shape = rng.choice(["nest", "nest", "nest_rev", "repeat", "merge"])
    al = rng.choice([None, None, "post", "parallel", "equal"])
    if shape == "nest":
        spec["block"] = {"op": "nest", "outer": outer, "inner": inner, "cons": [], "align": al}
    elif shape == "nest_rev":
        spec["block"] = {"op": "nest", "outer": inner, "inner": outer, "cons": [], "align": al}
    elif shape == "repeat":
        spec["block"] = {"op": "repeat", "block": inner, "cons": [{"type": "MinimumTrials", "trials": rng.randint(4, 9)}]}
    else:
        spec["block"] = {"op": "merge", "blocks": [inner, cross(["F0"] + inner_design, ["F0"], [])], "cons": [],
                         "mode": rng.choice(["repeat", "weight"]), "align": al}
    return spec


def cases(tier, seed):
    out = D.spec_cases(tier, seed, None, 440, 3000, "c08")
    for i in range(600 if tier == "thorough" else 80):
        rng = random.Random("c08w/%s/%d" % (seed, i))
        out.append({"cls": "combinator-with-window", "spec": nest_with_windows(rng)})
    from vlib import gen2
    return out + gen2.appended(tier, seed, "c08", ["A1", "A2", "A3", "A4", "A5", "A3", "A6"], 98, 630)


def run_case(case):
    p = D.prepare(case)
    if p.result:
        return p.result
    counters = p.counters
    counters["designs_accepted"] = 1
    rng = random.Random(S.spec_hash(p.spec))
    viol = []
    done = 0
    for strat in ("IterateSATGen", "RandomGen", "CMSGen", "UniGen"):
        n = rng.choice([0, 1, 1, 3])
        if strat == "UniGen" and p.block.variables_per_sample() > 150:
            counters["unigen_skipped_large"] = 1
            continue
        r, err, st = D.run_strategy(p.spec, strat, n, 12 if strat != "UniGen" else 20)
        if st == "timeout":
            counters[strat.lower() + "_timeout"] = 1
            continue
        if st == "died":
            done += 1
            counters["unigen_calls_completed"] = 1
            viol.append({"kind": "process_died", "strategy": strat, "requested": n,
                         "msg": "the interpreter terminated inside synthesize_trials(block, %d, %s) "
                                "(no exception, no return)" % (n, strat)})
            continue
        done += 1
        if strat == "UniGen":
            counters["unigen_calls_completed"] = 1
        if err:
            viol.append(D.exc_violation(err, strat, requested=n))
        elif not isinstance(r, list):
            viol.append({"kind": "not_a_list", "strategy": strat, "msg": "%s returned %r" % (strat, type(r))})
        else:
            counters["returned_empty" if not r else "returned_sequences"] = \
                counters.get("returned_empty" if not r else "returned_sequences", 0) + 1
            if n == 0:
                counters["zero_requested"] = counters.get("zero_requested", 0) + 1
    counters["calls_completed"] = done
    return {"nontrivial": done >= 3, "violations": viol, "counters": counters,
            "sample": {"spec": D.small(p.spec), "calls_completed": done}}
