"""C08 — synthesis never fails internally on an accepted design.

Observed: whatever escapes synthesize_trials(block, n, G) for G in IterateSATGen, RandomGen, CMSGen, UniGen and
n in {0, 1, 3} on every design the constructors accept (type, message, innermost sweetpea frame); for UniGen also
whether the interpreter survives the call (the call runs in a forked child).
Oracle: the call returns a list.
"""
import random

from vlib import designs as D, observe as O, spec as S

ID = "C08"
RULE = ("cases = generated design specs K1-K11 with boundary k / index values, contradictory constraints, single "
        "trial blocks; each accepted design is synthesized with the four strategies and a request of 0, 1 or 3 "
        "sequences. non-trivial = constructor accepted and at least three strategy calls completed (returned or "
        "raised); distinct = distinct spec hashes")
ASSUMPTIONS = ["a predicate that is called outside its documented argument domain raises PredicateDomainError in "
               "the harness; such an exception is charged to the library (it called the predicate)"]
MINIMUMS = {"quick": {"calls_completed": 1300, "designs_accepted": 340, "unigen_calls_completed": 250},
            "thorough": {"calls_completed": 4550, "designs_accepted": 1190, "unigen_calls_completed": 875}}
CASE_TIMEOUT = 100
MAX_INCONCLUSIVE_FRACTION = 0.3


def cases(tier, seed):
    return D.spec_cases(tier, seed, None, 440, 3000, "c08")


def run_case(case):
    p = D.prepare(case)
    if p.result:
        return p.result
    counters = p.counters
    counters["designs_accepted"] = 1
    rng = random.Random(S.spec_hash(p.spec))
    viol = []
    done = 0
    for strat in ("IterateSATGen", "RandomGen", "CMSGen", "UniGen"):
        n = rng.choice([0, 1, 1, 3])
        if strat == "UniGen" and p.block.variables_per_sample() > 150:
            counters["unigen_skipped_large"] = 1
            continue
        r, err, st = D.run_strategy(p.spec, strat, n, 12 if strat != "UniGen" else 20)
        if st == "timeout":
            counters[strat.lower() + "_timeout"] = 1
            continue
        if st == "died":
            done += 1
            counters["unigen_calls_completed"] = 1
            viol.append({"kind": "process_died", "strategy": strat, "requested": n,
                         "msg": "the interpreter terminated inside synthesize_trials(block, %d, %s) "
                                "(no exception, no return)" % (n, strat)})
            continue
        done += 1
        if strat == "UniGen":
            counters["unigen_calls_completed"] = 1
        if err:
            viol.append(D.exc_violation(err, strat, requested=n))
        elif not isinstance(r, list):
            viol.append({"kind": "not_a_list", "strategy": strat, "msg": "%s returned %r" % (strat, type(r))})
        else:
            counters["returned_empty" if not r else "returned_sequences"] = \
                counters.get("returned_empty" if not r else "returned_sequences", 0) + 1
            if n == 0:
                counters["zero_requested"] = counters.get("zero_requested", 0) + 1
    counters["calls_completed"] = done
    return {"nontrivial": done >= 3, "violations": viol, "counters": counters,
            "sample": {"spec": D.small(p.spec), "calls_completed": done}}
