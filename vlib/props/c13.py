"""C13 — combinatorial unranking functions are bijections with correct counts.

Observed: return values of the real functions in sweetpea/_internal/combinatorics.py. Oracle: brute-force generated
sets of arrangements for small parameters (image of 0..N-1 == brute-force set, no duplicates, N == counter) and, for
large parameters, an independent exponential-generating-function count plus legality/distinctness of sampled indices.
"""
import itertools
import random
from fractions import Fraction
from math import factorial

ID = "C13"
LEVEL = "exploration"
RULE = ("cases = (function family, parameter tuple, memo-usage variant). Small tuples are enumerated exhaustively "
        "(all of 0..N-1 compared with a brute-force set); large random tuples (q or first_n >= 100 included, to reach "
        "the explicit-stack counter) compare the count with an independent EGF count and 300 random indices for "
        "legality and pairwise distinctness; closed-form families (combinations without replacement, mixed radix, "
        "n**l, permutation prefixes) at sizes with counts beyond 2**53: exact independent count, then random, "
        "neighbouring and power-of-two indices must unrank to legal, distinct arrangements. non-trivial = N >= 2; distinct = distinct (family, parameters, variant)")
ASSUMPTIONS = ["brute-force generators (itertools) define 'all arrangements of its kind'"]
EXHAUSTIVE = {"quick": True, "thorough": True}
MINIMUMS = {"quick": {"indices_checked": 50000, "distinct_nontrivial": 400},
            "thorough": {"indices_checked": 1000000, "distinct_nontrivial": 800}}
CASE_TIMEOUT = 300


def cases(tier, seed):
    big = tier == "thorough"
    out = []
    r = range(1, 5 if big else 4)
    for sizes in itertools.product(r, repeat=3):
        out.append({"fam": "extract", "sizes": list(sizes)})
    out.append({"fam": "extract", "sizes": [1]})
    out.append({"fam": "extract", "sizes": [2, 1, 3, 1, 2]})
    for l in range(0, 6 if big else 5):
        for n in range(1, 5 if big else 4):
            out.append({"fam": "comb", "l": l, "n": n})
    for n in range(1, 9 if big else 7):
        for m in range(0, n + 1):
            out.append({"fam": "cwr", "n": n, "m": m})
            out.append({"fam": "permprefix", "n": n, "m": m})
    qmax, mmax = (5, 4) if big else (4, 3)
    for q in range(1, qmax + 1):
        for m in range(1, mmax + 1):
            if q * m > (11 if big else 9):
                continue
            for first_n in range(0, q * m + 1):
                for variant in ("int-fresh", "int-shared", "list-fresh", "list-shared", "int-findfirst",
                                "list-findfirst"):
                    out.append({"fam": "copies", "q": q, "m": m, "first_n": first_n, "variant": variant})
            out.append({"fam": "fullcopies", "q": q, "m": m})
    rng = random.Random(seed)
    for _ in range(600 if big else 150):
        q = rng.randint(1, 5 if big else 4)
        counters = [rng.randint(1, 3) for _ in range(q)]
        if sum(counters) > (10 if big else 8):
            continue
        out.append({"fam": "vcopies", "counters": counters, "first_n": rng.randint(0, sum(counters)),
                    "variant": rng.choice(["fresh", "shared", "findfirst"])})
    for _ in range(60 if big else 24):
        out.append({"fam": "bigcopies", "q": rng.choice([2, 3, 7, 100, 120]), "m": rng.randint(1, 4),
                    "frac": rng.random(), "seed": rng.randrange(10 ** 6)})
        out.append({"fam": "bigv", "q": rng.randint(3, 12), "seed": rng.randrange(10 ** 6)})
    # appended (round 4): the three closed-form families at sizes where counts exceed 2**53, so that any detour
    # through floating point (true division, math.pow, numpy) in counting or unranking shows
    rng2 = random.Random(seed * 7919 + 13)
    for _ in range(120 if big else 40):
        n = rng2.choice([54, 56, 58, 60, 62, 64, 66, 70, 80, 100, 128, 200])
        out.append({"fam": "bigcwr", "n": n, "m": rng2.choice([n // 2, n // 2 - 1, n // 3, n - n // 3, rng2.randint(1, n)]),
                    "seed": rng2.randrange(10 ** 6)})
        out.append({"fam": "bigextract", "sizes": [rng2.randint(2, 9) for _ in range(rng2.randint(18, 40))],
                    "seed": rng2.randrange(10 ** 6)})
        out.append({"fam": "bigcomb", "l": rng2.randint(20, 60), "n": rng2.randint(2, 9), "seed": rng2.randrange(10 ** 6)})
        n = rng2.randint(19, 60)
        out.append({"fam": "bigpermprefix", "n": n, "m": rng2.randint(max(1, n - 8), n), "seed": rng2.randrange(10 ** 6)})
    for c in out:
        c["cls"] = c["fam"]
    return out


def brute_prefixes(counters, first_n):
    res = set()
    c = list(counters)

    def rec(pre):
        if len(pre) == first_n:
            res.add(tuple(pre))
            return
        for i in range(len(c)):
            if c[i] > 0:
                c[i] -= 1
                pre.append(i)
                rec(pre)
                pre.pop()
                c[i] += 1
    rec([])
    return res


def egf_count(counters, n):
    """n! * [x^n] prod_i sum_{v<=c_i} x^v/v!  (number of length-n prefixes of multiset permutations)"""
    poly = [Fraction(1)] + [Fraction(0)] * n
    for c in counters:
        new = [Fraction(0)] * (n + 1)
        for a, ca in enumerate(poly):
            if ca == 0:
                continue
            for v in range(0, min(c, n - a) + 1):
                new[a + v] += ca / factorial(v)
        poly = new
    val = poly[n] * factorial(n)
    assert val.denominator == 1
    return int(val)


def _result(case, N, checked, viol):
    params = {k: v for k, v in case.items() if k != "cls"}
    return {"nontrivial": N >= 2, "dkey": repr(sorted((a, str(b)) for a, b in params.items())),
            "violations": viol[:4], "counters": {"indices_checked": checked, "exhaustively_enumerated": int(checked >= N)},
            "sample": {"case": params, "N": str(N), "indices_checked": checked}}


def _compare(name, img, want, N_reported, viol, params):
    img_set = set(img)
    if N_reported is not None and N_reported != len(want):
        viol.append({"kind": "wrong_count", "fam": name,
                     "msg": "%s %s: counter reports %s, brute force finds %d arrangements" % (name, params, N_reported, len(want))})
    if len(img_set) != len(img):
        dup = [x for x in img_set if img.count(x) > 1][:2]
        viol.append({"kind": "not_injective", "fam": name,
                     "msg": "%s %s: %d indices map to %d arrangements, e.g. duplicate %s" % (name, params, len(img), len(img_set), dup)})
    if img_set != want:
        extra = list(img_set - want)[:2]
        missing = list(want - img_set)[:2]
        viol.append({"kind": "wrong_image", "fam": name,
                     "msg": "%s %s: illegal %s missing %s" % (name, params, extra, missing)})


def _run_big_closed_form(C, case, viol):
    """Closed-form families at sizes beyond 2**53: independent exact count (math.comb / products), then sampled
    indices (both ends, neighbours, random) must unrank to legal, pairwise distinct arrangements; neighbouring
    indices are included because a rounded quotient typically collapses or repeats adjacent ranks."""
    from math import comb, perm
    fam = case["fam"]
    rng = random.Random(case["seed"])
    if fam == "bigcwr":
        n, m = case["n"], case["m"]
        want_n = comb(n, m)
        N = C.n_choose_m(n, m)
        if N != want_n:
            viol.append({"kind": "wrong_count", "fam": fam, "msg": "n_choose_m(%d,%d)=%s != %d" % (n, m, N, want_n)})
        f = lambda j: tuple(sorted(C.compute_jth_combination_without_replacement(n, m, j)))
        legal = lambda p: len(p) == m and len(set(p)) == m and all(isinstance(x, int) and 0 <= x < n for x in p)
        params = (n, m)
    elif fam == "bigextract":
        sizes = case["sizes"]
        want_n = 1
        for x in sizes:
            want_n *= x
        f = lambda j: tuple(C.extract_components(list(sizes), j))
        legal = lambda p: len(p) == len(sizes) and all(isinstance(x, int) and 0 <= x < s for x, s in zip(p, sizes))
        params = sizes
    elif fam == "bigcomb":
        l, n = case["l"], case["n"]
        want_n = n ** l
        f = lambda j: tuple(C.compute_jth_combination(l, n, j))
        legal = lambda p: len(p) == l and all(isinstance(x, int) and 0 <= x < n for x in p)
        params = (l, n)
    else:
        n, m = case["n"], case["m"]
        want_n = perm(n, m)
        f = lambda j: tuple(C.compute_jth_permutation_prefix(n, m, j))
        legal = lambda p: len(p) == m and len(set(p)) == m and all(isinstance(x, int) and 0 <= x < n for x in p)
        params = (n, m)
    idxs = {0, want_n - 1}
    for _ in range(60):
        j = rng.randrange(want_n)
        idxs.update(x for x in (j - 1, j, j + 1) if 0 <= x < want_n)
    for e in range(50, want_n.bit_length()):
        idxs.update(x for x in (2 ** e - 1, 2 ** e, 2 ** e + 1) if x < want_n)
    idxs = sorted(idxs)
    seen = {}
    for j in idxs:
        try:
            p = f(j)
        except Exception as e:
            viol.append({"kind": "unrank_failed", "fam": fam, "msg": "%s %s: index %d of %d does not unrank (%s: %s)"
                         % (fam, str(params)[:60], j, want_n, type(e).__name__, str(e)[:80])})
            break
        if not legal(p):
            viol.append({"kind": "wrong_image", "fam": fam, "msg": "%s %s index %d -> illegal %s" % (fam, str(params)[:60], j, str(p)[:80])})
            break
        if p in seen:
            viol.append({"kind": "not_injective", "fam": fam, "msg": "%s %s: indices %d and %d both -> %s"
                         % (fam, str(params)[:60], seen[p], j, str(p)[:80])})
            break
        seen[p] = j
    return _result(case, want_n, len(idxs), viol)


def run_case(case):
    from sweetpea._internal import combinatorics as C
    fam = case["fam"]
    viol = []
    if fam == "extract":
        sizes = case["sizes"]
        N = 1
        for s in sizes:
            N *= s
        img = [tuple(C.extract_components(list(sizes), j)) for j in range(N)]
        want = set(itertools.product(*[range(s) for s in sizes]))
        _compare(fam, img, want, None, viol, sizes)
        return _result(case, N, N, viol)
    if fam == "comb":
        l, n = case["l"], case["n"]
        N = n ** l
        img = [tuple(C.compute_jth_combination(l, n, j)) for j in range(N)]
        _compare(fam, img, set(itertools.product(range(n), repeat=l)), None, viol, (l, n))
        return _result(case, N, N, viol)
    if fam == "cwr":
        n, m = case["n"], case["m"]
        N = C.n_choose_m(n, m)
        want = set(itertools.combinations(range(n), m))
        img = [tuple(sorted(C.compute_jth_combination_without_replacement(n, m, j))) for j in range(N)]
        _compare(fam, img, want, N, viol, (n, m))
        return _result(case, N, N, viol)
    if fam == "permprefix":
        n, m = case["n"], case["m"]
        want = set(itertools.permutations(range(n), m))
        N = len(want)
        img = [tuple(C.compute_jth_permutation_prefix(n, m, j)) for j in range(N)]
        _compare(fam, img, want, None, viol, (n, m))
        return _result(case, N, N, viol)
    if fam in ("copies", "vcopies"):
        if fam == "copies":
            q, m, first_n = case["q"], case["m"], case["first_n"]
            variant = case["variant"]
            moc = m if variant.startswith("int") else [m] * q
            counters = [m] * q
            mode = variant.split("-")[1]
        else:
            counters = case["counters"]
            q = len(counters)
            first_n = case["first_n"]
            moc = list(counters)
            mode = case["variant"]
        want = brute_prefixes(counters, first_n)

        def memo():
            return C.PermutationMemo()
        if mode == "fresh":
            N = C.count_prefixes_of_permutations_with_copies(q, moc, first_n, memo())
            img = [tuple(C.compute_jth_prefix_of_permutations_with_copies(q, moc, first_n, j, memo())) for j in range(N)]
        elif mode == "shared":
            pm = memo()
            N = C.count_prefixes_of_permutations_with_copies(q, moc, first_n, pm)
            order = list(range(N))
            random.Random(N).shuffle(order)
            got = {j: tuple(C.compute_jth_prefix_of_permutations_with_copies(q, moc, first_n, j, pm)) for j in order}
            img = [got[j] for j in range(N)]
        else:  # findfirst: unrank with an empty memo that fills while finding, then count with it
            pm = memo()
            N0 = len(want)
            img = [tuple(C.compute_jth_prefix_of_permutations_with_copies(q, moc, first_n, j, pm)) for j in range(N0)]
            N = C.count_prefixes_of_permutations_with_copies(q, moc, first_n, pm)
        _compare(fam, img, want, N, viol, (counters, first_n, mode))
        if isinstance(moc, list):
            N2 = C.count_permutations_with_varying_copies(q, list(moc), first_n)
            if N2 != len(want):
                viol.append({"kind": "wrong_count", "fam": fam, "msg": "count_permutations_with_varying_copies %s != %d" % (N2, len(want))})
        else:
            N2 = C.count_permutations_with_copies(q, moc, first_n)
            if N2 != len(want):
                viol.append({"kind": "wrong_count", "fam": fam, "msg": "count_permutations_with_copies(%d,%d,%d)=%s != %d" % (q, moc, first_n, N2, len(want))})
        return _result(case, len(want), len(img), viol)
    if fam == "fullcopies":
        q, m = case["q"], case["m"]
        want = brute_prefixes([m] * q, q * m)
        N = len(want)
        img = [tuple(C.construct_permutation_with_copies(j, q, m)) for j in range(N)]
        _compare(fam, img, want, C.count_permutations_with_copies(q, m, q * m), viol, (q, m))
        img2 = [tuple(C.construct_permutation_with_varying_copies(j, q, [m] * q)) for j in range(N)]
        _compare(fam + "/varying", img2, want, None, viol, (q, m))
        return _result(case, N, 2 * N, viol)
    if fam in ("bigcwr", "bigextract", "bigcomb", "bigpermprefix"):
        return _run_big_closed_form(C, case, viol)
    if fam in ("bigcopies", "bigv"):
        rng = random.Random(case["seed"])
        if fam == "bigcopies":
            q, m = case["q"], case["m"]
            counters = [m] * q
            first_n = max(1, int(case["frac"] * min(q * m, 130)))
            if q >= 100 and rng.random() < 0.5:
                first_n = min(q * m, rng.choice([100, 101, 110]))
            moc = m
        else:
            q = case["q"]
            counters = [rng.randint(1, 6) for _ in range(q)]
            first_n = rng.randint(1, sum(counters))
            moc = list(counters)
        pm = C.PermutationMemo()
        N = C.count_prefixes_of_permutations_with_copies(q, moc, first_n, pm)
        want_n = egf_count(counters, first_n)
        if N != want_n:
            viol.append({"kind": "wrong_count", "fam": fam,
                         "msg": "%s q=%d counters=%s first_n=%d: counter %d != independent count %d"
                                % (fam, q, counters[:8], first_n, N, want_n)})
        idxs = sorted({rng.randrange(want_n) for _ in range(300)} | {0, want_n - 1})
        seen = {}
        for j in idxs:
            try:
                p = tuple(C.compute_jth_prefix_of_permutations_with_copies(q, moc, first_n, j, pm))
            except Exception as e:  # an in-range index must unrank to an arrangement
                viol.append({"kind": "unrank_failed", "fam": fam,
                             "msg": "%s %s first_n=%d: index %d of %d does not unrank to an arrangement (%s: %s)"
                                    % (fam, counters[:8], first_n, j, want_n, type(e).__name__, str(e)[:80])})
                break
            ok = len(p) == first_n and all(0 <= x < q for x in p) and all(p.count(x) <= counters[x] for x in set(p))
            if not ok:
                viol.append({"kind": "wrong_image", "fam": fam, "msg": "%s %s first_n=%d index %d -> illegal %s" % (fam, counters[:8], first_n, j, p[:20])})
                break
            if p in seen:
                viol.append({"kind": "not_injective", "fam": fam, "msg": "%s %s first_n=%d: indices %d and %d both -> %s" % (fam, counters[:8], first_n, seen[p], j, p[:20])})
                break
            seen[p] = j
        return _result(case, want_n, len(idxs), viol)
    raise ValueError(fam)
