"""C28 — the ILP (OPB) export accepts the same assignments as the SAT encoding.

Observed: the text written by the real combine_and_save_opb / sample_ilp.update_file into a private directory.
Oracle: independent OPB parser + evaluator over all 2^n assignments of the formula's variables, compared with
(a) plain arithmetic on the clauses and requests and (b) satisfiability of the SAT encoding of the same input under
the same assumptions (a disagreement that arithmetic attributes to the SAT side is a C10 matter and is reported
here only as kind 'sat_side').
"""
import itertools
import os
import random
from pathlib import Path

ID = "C28"
LEVEL = "exploration"
RULE = ("cases = random clause sets over <= 6 variables (unit, duplicate, tautological clauses included) x request lists "
        "(EQ/LT/GT, k in 0..n+2, variable sublists) ; every case evaluates the written OPB text on ALL assignments and "
        "checks the blocking constraint of 1-3 iterations. non-trivial = at least one request or clause and >= 2 "
        "assignments; distinct = distinct (clauses, requests) inputs")
ASSUMPTIONS = ["OPB semantics: a line is a linear constraint over 0/1 variables v<i>; constraints are conjoined",
               "Gurobi is absent offline: acceptance of the text by Gurobi itself is not observed"]
MINIMUMS = {"quick": {"assignments_checked": 8000, "distinct_nontrivial": 400, "blocking_checked": 300,
                      "requests_GT": 60, "requests_LT": 60, "requests_EQ": 60},
            "thorough": {"assignments_checked": 150000, "distinct_nontrivial": 4000, "blocking_checked": 3000,
                         "requests_GT": 1000, "requests_LT": 1000, "requests_EQ": 1000}}
CASE_TIMEOUT = 120


def cases(tier, seed):
    n = 12000 if tier == "thorough" else 800
    return [{"seed": seed * 100000 + i, "cls": "opb"} for i in range(n)]


def run_case(case):
    from sweetpea._internal.core.cnf import CNF, Var
    from sweetpea._internal.core.generate import utility as U
    from sweetpea._internal.core.generate import sample_ilp
    from vlib.satx import Sat, clauses_of, parse_opb, eval_opb
    rng = random.Random(case["seed"])
    nv = rng.randint(1, 6)
    ncl = rng.choice([0, 1, 2, 3, 4, 6])
    clauses = []
    for _ in range(ncl):
        w = rng.randint(1, min(3, nv))
        vs = rng.sample(range(1, nv + 1), w)
        cl = [v if rng.random() < 0.5 else -v for v in vs]
        if rng.random() < 0.1:
            cl.append(-cl[0])
        clauses.append(cl)
    if clauses and rng.random() < 0.15:
        clauses.append(list(clauses[0]))
    rng2 = random.Random("dup/%s" % case["seed"])   # separate stream: repeated literals inside a clause (legal CNF)
    for cl in clauses:
        if rng2.random() < 0.12:
            cl.insert(rng2.randrange(len(cl) + 1), rng2.choice(cl))
    reqs = []
    for _ in range(rng.choice([0, 1, 1, 2, 3])):
        m = rng.randint(1, nv)
        vs = rng.sample(range(1, nv + 1), m)
        reqs.append((rng.choice(["EQ", "LT", "GT"]), rng.randint(0, m + 2), vs))
    cnf = CNF(clauses)
    grs = [U.GenerationRequest(U.AssertionType[r], k, [Var(v) for v in vs]) for r, k, vs in reqs]
    fn = Path("case.opb")
    if fn.exists():
        fn.unlink()
    U.combine_and_save_opb(fn, cnf, nv, grs)
    text = fn.read_text()
    cons, problems = parse_opb(text)
    viol = []
    counters = {"requests_" + r: sum(1 for x in reqs if x[0] == r) for r in ("EQ", "LT", "GT")}
    if problems:
        viol.append({"kind": "opb_syntax", "msg": "OPB text not parsable: %s; text=%r" % (problems[:2], text[:200])})
    if len(cons) != len(clauses) + len(reqs):
        viol.append({"kind": "opb_constraint_count",
                     "msg": "%d OPB constraints for %d clauses + %d requests; text=%r" % (len(cons), len(clauses), len(reqs), text[:300])})
    sat_cnf = U.combine_cnf_with_requests(CNF(clauses), nv, nv, grs)
    sat = Sat(clauses_of(sat_cnf), max(nv, sat_cnf._num_vars))
    checked = 0
    rel = {"EQ": lambda c, k: c == k, "LT": lambda c, k: c < k, "GT": lambda c, k: c > k}
    sols = []
    for bits in itertools.product([False, True], repeat=nv):
        a = dict(zip(range(1, nv + 1), bits))
        arith = all(any(a[abs(l)] == (l > 0) for l in cl) for cl in clauses) and \
            all(rel[r](sum(a[v] for v in vs), k) for r, k, vs in reqs)
        opb = eval_opb(cons, a)
        checked += 1
        if arith:
            sols.append(a)
        if opb != arith and not problems:
            bad = [r for r in reqs if rel[r[0]](sum(a[v] for v in r[2]), r[1]) != eval_opb(cons[len(clauses):][reqs.index(r):reqs.index(r) + 1], a)] \
                if len(cons) == len(clauses) + len(reqs) else []
            viol.append({"kind": "opb_differs", "rels": sorted({r[0] for r in bad}),
                         "msg": "assignment %s: OPB text says %s, clauses+requests say %s (requests %s, offending %s); text=%r"
                                % (a, opb, arith, reqs, bad, text[:300])})
            break
        m = sat.solve([v if b else -v for v, b in a.items()])
        if (m is not None) != arith:
            viol.append({"kind": "sat_side", "msg": "SAT encoding disagrees with arithmetic at %s (requests %s)" % (a, reqs)})
            break
    # blocking constraints, as the ILP iteration appends them
    blocked = 0
    support = rng.randint(1, nv)
    for a in rng.sample(sols, min(len(sols), 3)):
        solution = [v if a[v] else -v for v in range(1, support + 1)]
        before = len(text)
        sample_ilp.update_file(fn, solution)
        text2 = fn.read_text()
        added, p2 = parse_opb(text2[before:])
        all_cons, p3 = parse_opb(text2)
        if p2 or p3 or len(added) != 1:
            viol.append({"kind": "opb_syntax", "msg": "blocking constraint not parsable: %r" % text2[before:]})
            break
        for bits in itertools.product([False, True], repeat=support):
            b = dict(zip(range(1, support + 1), bits))
            same = all(b[v] == a[v] for v in range(1, support + 1))
            ok = eval_opb(added, b)
            if ok == same:
                viol.append({"kind": "blocking_wrong",
                             "msg": "blocking constraint %r for solution %s is %s at %s" % (text2[before:].strip(), solution, ok, b)})
                break
        blocked += 1
        text = text2
    counters.update({"assignments_checked": checked, "blocking_checked": blocked, "solutions_seen": len(sols)})
    if fn.exists():
        fn.unlink()
    key = repr((clauses, reqs))
    return {"nontrivial": bool(clauses or reqs) and checked >= 2, "dkey": key, "violations": viol[:3],
            "counters": counters,
            "sample": {"clauses": clauses, "requests": reqs, "opb_text": text[:400], "solutions": len(sols)}}
