"""C16 — the trial count follows the documented rules and every returned sequence has that length.

Observed: block.trials_per_sample() and the length of every list in the sequences returned by IterateSATGen,
RandomGen, CMSGen, UniGen on a fifth of the designs, and SMGen on the designs it supports.
Oracle: R.T(spec) from the documented arithmetic (vlib/ref.py analyze) wherever R decides T.
"""
from vlib import designs as D, observe as O

ID = "C16"
RULE = ("cases = generated design specs K1-K11 with emphasis on MinimumTrials, Exclude, MultiCrossBlock, Repeat, "
        "Nest; non-trivial = constructor accepted and R decides the trial count; distinct = distinct spec hashes; "
        "per case the reported count and the length of every list of every returned sequence are compared with R")
ASSUMPTIONS = ["reference model R (vlib/ref.py) trial-count arithmetic is the documented one"]
MINIMUMS = {"quick": {"T_compared": 400, "sequences_length_checked": 1500, "T_gt_crossing_size": 60, "smgen_sequences_length_checked": 15},
            "thorough": {"T_compared": 1400, "sequences_length_checked": 5250, "T_gt_crossing_size": 210, "smgen_sequences_length_checked": 50}}
CASE_TIMEOUT = 90
CLASSES = ["K1", "K2", "K3", "K4", "K5", "K6", "K6", "K7", "K7", "K8", "K8", "K9", "K9", "K10", "K11", "K11", "K12", "K12"]


def cases(tier, seed):
    out = D.spec_cases(tier, seed, CLASSES, 640, 3600, "c16")
    # appended classes of vlib/gen2.py (added after the generator freeze; see DESIGN.md 2.2)
    from vlib import gen2
    return out + gen2.appended(tier, seed, "c16", ['A1', 'A3', 'A2', 'A3'], 120, 360)


def run_case(case):
    p = D.prepare(case)
    if p.result:
        return p.result
    counters = p.counters
    fl = p.fl
    if fl.ctor_err or fl.und_T or fl.T is None:
        counters["R_T_undecided"] = 1
        return {"nontrivial": False, "violations": [], "counters": counters}
    viol = []
    Ti = p.block.trials_per_sample()
    counters["T_compared"] = 1
    if fl.crossings and fl.T > max(c["S"] * c["sustain"] for c in fl.crossings):
        counters["T_gt_crossing_size"] = 1
    if Ti != fl.T:
        viol.append({"kind": "wrong_trial_count", "reported": Ti, "documented": fl.T,
                     "msg": "trials_per_sample() = %s, documented arithmetic gives %s (crossings %s, min trials %s)"
                            % (Ti, fl.T, [(c["names"], c["S"], c["p"], c["cw"]) for c in fl.crossings], fl.mt)})
    plan = [("IterateSATGen", 3), ("RandomGen", 3), ("CMSGen", 2)]
    h = int(case["spec"] and __import__("vlib.spec", fromlist=["x"]).spec_hash(case["spec"]), 16)
    if h % 5 == 0 and p.block.variables_per_sample() <= 120:
        plan.append(("UniGen", 2))
    t = p.spec["block"]
    if (t["op"] == "cross" and len(t["crossings"]) == 1 and all(c["type"] == "MinimumTrials" for c in t["cons"])
            and not any(f["kind"] == "derived" and f["win"][0] == "window" for f in p.spec["factors"].values())):
        plan.append(("SMGen", 1))     # the designs SMGen documents as supported
    checked = 0
    for strat, n in plan:
        r, err, st = D.run_strategy(p.spec, strat, n, 8 if strat == "RandomGen" else 20)
        if strat == "SMGen" and st == "ok" and not err and r:
            counters["smgen_sequences_length_checked"] = counters.get("smgen_sequences_length_checked", 0) + len(r)
        if st != "ok" or err or r is None:
            counters["%s_%s" % (strat.lower(), st if st != "ok" else "raised")] = 1
            continue
        for s in r:
            checked += 1
            bad = {k: len(v) for k, v in s.items() if len(v) != fl.T}
            if bad or set(s) != set(p.user):
                viol.append({"kind": "wrong_length", "strategy": strat, "lengths": bad,
                             "msg": "%s returned lists of length %s (documented trial count %d) keys=%s expected=%s"
                                    % (strat, bad, fl.T, sorted(s), sorted(p.user))})
                break
    counters["sequences_length_checked"] = checked
    return {"nontrivial": True, "violations": viol[:4], "counters": counters,
            "sample": {"spec": D.small(p.spec), "T_documented": fl.T, "T_reported": Ti, "sequences": checked}}
