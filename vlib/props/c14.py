"""C14 — trial/factor/level variables are allocated and decoded consistently.

Observed on every constructed block: the table (trial, factor, level) -> variable obtained three ways
(get_variable, factor_variables_for_trial, build_variable_lists), decode_variable on every support variable,
variables_per_sample / grid_variables, BackendRequest.fresh and the smallest auxiliary variable build_cnf uses,
and Gen.decode on constructed one-hot assignments.
Oracle: the map is injective, its image is exactly 1..variables_per_sample, the three sources agree, every
auxiliary variable is larger, decode(encode(x)) == x, Gen.decode reports exactly the chosen levels ('' where the
factor does not apply) in lists of length T.
"""
import random

from vlib import designs as D, observe as O, spec as S

ID = "C14"
RULE = ("cases = generated design specs K1-K11 (stride/start variety, Nest sustain counts, weights); non-trivial = "
        "constructed block with >= 2 encoded factors and >= 2 trials; distinct = spec hashes. Per case the whole "
        "variable table is checked and N_DECODE random one-hot assignments are decoded")
ASSUMPTIONS = ["applicability of a derived factor at a trial = documented start/stride rule (vlib/spec.py applies)"]
MINIMUMS = {"quick": {"triples_checked": 25000, "assignments_decoded": 15000, "designs_with_complex_window": 150},
            "thorough": {"triples_checked": 350000, "assignments_decoded": 200000, "designs_with_complex_window": 2000}}
CASE_TIMEOUT = 120
N_DECODE = 25


def cases(tier, seed):
    out = D.spec_cases(tier, seed, None, 1100, 14000, "c14")
    # appended classes of vlib/gen2.py (added after the generator freeze; see DESIGN.md 2.2)
    from vlib import gen2
    return out + gen2.appended(tier, seed, "c14", ['A1', 'A3', 'A2', 'A5'], 120, 1200)


def run_case(case):
    from sweetpea._internal.sampling_strategy.base import Gen
    p = D.prepare(case)
    if p.result:
        return p.result
    counters = p.counters
    b = p.block
    viol = []

    def bad(kind, msg, **kw):
        if len(viol) < 5:
            viol.append(dict(kind=kind, msg=msg, **kw))
    T = b.trials_per_sample()
    vps = b.variables_per_sample()
    table = {}
    by_var = {}
    triples = 0
    enc_factors = list(b.act_design)
    for f in enc_factors:
        sus = b.sustain_count(f)
        for t in range(1, T + 1):
            if not f.applies_to_trial((t - 1) // sus + 1):
                continue
            fv = b.factor_variables_for_trial(f, t)
            # factor_variables_for_trial lists the variables of the levels that are not excluded
            kept = [l for l in f.levels if (f, l) not in b.exclude]
            if len(fv) != len(kept):
                bad("table", "factor %s trial %d: %d variables for %d non-excluded levels" % (f.name, t, len(fv), len(kept)))
            for li, l in enumerate(f.levels):
                v = b.get_variable(t, (f, l))
                triples += 1
                if l in kept and kept.index(l) < len(fv) and fv[kept.index(l)] != v:
                    bad("sources_disagree", "get_variable(%d,%s,%s)=%d but factor_variables_for_trial gives %d"
                        % (t, f.name, l.name, v, fv[kept.index(l)]))
                if v in by_var:
                    bad("shared_variable", "variable %d stands for both %s and %s" % (v, by_var[v], (t, str(f.name), l.name)))
                by_var[v] = (t, str(f.name), l.name)
                table[(t, f, l)] = v
                df, dl = b.decode_variable(v)
                if df is not f or dl is not l:
                    bad("decode_variable", "decode_variable(%d) = (%s,%s), encoded (%s,%s) at trial %d"
                        % (v, df.name, dl.name, f.name, l.name, t))
    if by_var and (min(by_var) != 1 or max(by_var) != len(by_var) or len(by_var) != vps):
        bad("image", "trial variables cover %d..%d (%d distinct), variables_per_sample()=%d"
            % (min(by_var), max(by_var), len(by_var), vps))
    # build_variable_lists (whole-sequence window) agrees with the table
    for f in enc_factors:
        sus = b.sustain_count(f)
        for l in f.levels:
            lists = b.build_variable_lists((f, l), None)
            flat = [v for lst in lists for v in lst]
            want = [table[(t, f, l)] for t in range(1, T + 1) if (t, f, l) in table]
            if flat != want:
                bad("build_variable_lists", "level %s:%s lists %s, table says %s" % (f.name, l.name, flat[:12], want[:12]))
    # auxiliary variables are above the support
    br, err, out = O.quiet(b.build_backend_request)
    if err:
        counters["backend_request_raised"] = 1
    else:
        if br.fresh <= vps and (br.cnfs or br.ll_requests):
            bad("fresh", "backend request fresh=%d not above variables_per_sample=%d" % (br.fresh, vps))
    # Gen.decode on one-hot assignments
    rng = random.Random(S.spec_hash(p.spec))
    decoded = 0
    hidden_ok = {str(f.name) for f in enc_factors}
    for _ in range(N_DECODE if by_var else 0):
        chosen = {}
        lits = {v: False for v in by_var}
        for f in enc_factors:
            sus = b.sustain_count(f)
            for t in range(1, T + 1):
                if (t, f, f.levels[0]) in table:
                    l = rng.choice(list(f.levels))
                    chosen[(t, f)] = l
                    lits[table[(t, f, l)]] = True
        assignment = [v if lits[v] else -v for v in sorted(lits)]
        dec, err, out = O.quiet(Gen.decode, b, assignment)
        if err:
            bad("decode_raised", "Gen.decode raised %s: %s" % (err["exc"], err["msg"][:120]))
            break
        decoded += 1
        for f in enc_factors:
            col = dec.get(f.name)
            if col is None:
                bad("decode_missing", "Gen.decode result lacks factor %s" % f.name)
                continue
            if len(col) != T:
                bad("decode_length", "Gen.decode gives %d entries for %s, T=%d" % (len(col), f.name, T))
                continue
            for t in range(1, T + 1):
                want = chosen[(t, f)].name if (t, f) in chosen else ""
                if col[t - 1] != want:
                    bad("decode_wrong", "Gen.decode reports %r for %s at trial %d, the assignment chose %r"
                        % (col[t - 1], f.name, t, want))
                    break
    counters["triples_checked"] = triples
    counters["assignments_decoded"] = decoded
    if any(f.has_complex_window for f in enc_factors):
        counters["designs_with_complex_window"] = 1
    if any(b.sustain_count(f) > 1 for f in enc_factors):
        counters["designs_with_sustain"] = 1
    return {"nontrivial": len(enc_factors) >= 2 and T >= 2, "violations": viol, "counters": counters,
            "sample": {"spec": D.small(p.spec), "T": T, "variables_per_sample": vps, "triples": triples,
                       "decoded": decoded}}
