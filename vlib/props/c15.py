"""C15 — derived factors must be total, unambiguous functions of their window.

Observed: constructor outcome, block.errors, stdout and result of synthesize_trials (IterateSATGen, RandomGen) for
specs whose derived-level truth tables are (a) overlapping: two levels accept one argument tuple, (b) incomplete:
some argument tuple is accepted by no level, (c) proper.
Oracle: (a) construction raises ValueError; (b) no exception, the samplers return [] and print an error that
names the factor; (c) every returned sequence carries, at each applicable trial, the unique accepting level and ''
elsewhere (reference derivation, vlib/ref.py).
"""
import copy
import json
import random

from vlib import designs as D, observe as O, ref, gen, spec as S

ID = "C15"
RULE = ("cases = generated flat designs with 1-2 derived factors (within / transition / window with width, stride, "
        "early and late start, ElseLevel), each in three variants: proper, one overlapping argument tuple, one "
        "uncovered argument tuple (the malformed tuple is chosen at random from the whole argument domain, None "
        "arguments included); class late_start_dep: a width-1 derived factor with a late explicit start and an encoded "
        "derived factor over it that starts earlier (proper only; IterateSATGen returning [] is checked against R). "
        "non-trivial = the variant's oracle was evaluated; distinct = (spec hash)")
ASSUMPTIONS = ["argument domain of a window = all level tuples of its dependencies, with None where a dependency "
               "is not yet defined (docs: window start)"]
MINIMUMS = {"quick": {"overlap_judged": 90, "hole_judged": 90, "proper_sequences_judged": 600},
            "thorough": {"overlap_judged": 1300, "hole_judged": 1300, "proper_sequences_judged": 9000}}
CASE_TIMEOUT = 90


def cases(tier, seed):
    n = 6000 if tier == "thorough" else 480
    out = []
    for i in range(n):
        rng = random.Random("c15/%s/%d" % (seed, i))
        sp = gen.gen_flat(rng, rng.choice(["K3", "K4", "K4", "K5"]))
        ders = [n_ for n_ in sp["block"]["design"] if sp["factors"][n_]["kind"] == "derived"]
        if not ders:
            continue
        variant = ["proper", "overlap", "hole"][i % 3]
        target = rng.choice(ders)
        f = sp["factors"][target]
        keys = sorted(f["table"])
        if variant == "overlap":
            non_else = [li for li in range(len(f["levels"])) if li != f.get("else")]
            cands = [k for k in keys if f["table"][k] in non_else]
            if len(non_else) < 2 or not cands:
                variant = "proper"
            else:
                k = rng.choice(cands)
                other = rng.choice([li for li in non_else if li != f["table"][k]])
                f["table2"] = {k: other}
        elif variant == "hole":
            if f.get("else") is not None:
                f["else"] = None
            k = rng.choice(keys)
            f["hole_orig"] = [k, f["table"][k]]
            f["table"][k] = None
        # keep the design otherwise satisfiable-ish: drop constraints that refer to the mutated factor
        if variant != "proper":
            sp["block"]["cons"] = [c for c in sp["block"]["cons"] if c.get("factor") != target]
        out.append({"cls": variant, "spec": sp, "variant": variant, "target": target})
    # appended (round 4): a derived factor over a width-1 derived factor that only exists from a late explicit start,
    # itself starting earlier (its window sees "no level yet"), kept in the encoding by a crossing or a constraint
    for i in range(n // 12):
        rng = random.Random("c15late/%s/%d" % (seed, i))
        out.append({"cls": "late_start_dep", "spec": gen_late(rng), "variant": "proper", "target": "D1"})
    return out


def gen_late(rng):
    from vlib import spec as S
    nl0 = rng.choice([2, 3, 4])
    spec = {"factors": {"F0": {"kind": "basic", "levels": [["a%d" % j, 1] for j in range(nl0)]}}, "order": ["F0"], "block": None}
    if rng.random() < 0.5:
        spec["factors"]["F1"] = {"kind": "basic", "levels": [["b0", 1], ["b1", 1]]}
        spec["order"].append("F1")
    late = rng.choice([1, 2, 2, 3])
    for name, deps, start in (("D0", ["F0"], late), ("D1", ["D0"], rng.randrange(0, late))):
        nl = 2
        f = {"kind": "derived", "win": ["window", 1, 1, start], "deps": deps,
             "levels": [[name.lower() + str(j), 1] for j in range(nl)], "table": {}, "else": None}
        spec["factors"][name] = f
        spec["order"].append(name)
        dom = list(S.arg_domain(spec, name))
        for j, tup in enumerate(rng.sample(dom, len(dom))):
            f["table"][S.akey(tup)] = j if j < nl else rng.randrange(nl)
    design = list(spec["order"])
    rng.shuffle(design)
    crossing = ["F0"] if rng.random() < 0.6 else ["F0", "D1"]
    cons = []
    if "D1" not in crossing or rng.random() < 0.3:
        cons.append({"type": "AtMostKInARow", "k": 4, "factor": "D1", "level": "d10"})
    spec["block"] = {"op": "cross", "design": design, "crossings": [crossing], "cons": cons, "rcc": True,
                     "mode": "weight", "align": "equal", "ctor": "CrossBlock"}
    return spec


def run_case(case):
    spec = case["spec"]
    variant = case["variant"]
    target = case["target"]
    counters = {}
    viol = []
    block, pool, cerr = O.construct(spec, strict=True)
    if variant == "overlap":
        counters["overlap_judged"] = 1
        if cerr is None:
            viol.append({"kind": "overlap_accepted", "msg": "block construction accepted derived factor %s although "
                         "levels %s both accept %s" % (target, [spec["factors"][target]["table"][k] for k in spec["factors"][target]["table2"]],
                                                        list(spec["factors"][target]["table2"]))})
        elif cerr["exc"] != "ValueError":
            viol.append({"kind": "overlap_wrong_exception", "exc": cerr["exc"], "func": cerr["func"],
                         "msg": "overlapping derived factor %s: construction raised %s (%s), documented is "
                                "ValueError" % (target, cerr["exc"], cerr["msg"][:120])})
        return {"nontrivial": True, "violations": viol, "counters": counters, "cls": variant,
                "sample": {"variant": variant, "target": target, "spec": D.small(spec),
                           "constructor": cerr and cerr["exc"]}}
    if cerr is not None:
        counters["rejected_by_constructor"] = 1
        if variant == "hole":
            # does the design without the hole fail in the same way? then the failure is not about totality
            import copy
            twin = copy.deepcopy(spec)
            k, orig = twin["factors"][target].pop("hole_orig")
            twin["factors"][target]["table"][k] = orig
            b2, _, e2 = O.construct(twin, strict=True)
            if e2 is not None and e2["exc"] == cerr["exc"] and e2["func"] == cerr["func"]:
                counters["constructor_fails_without_hole_too"] = 1
                return {"nontrivial": False, "violations": [], "counters": counters, "cls": variant}
            counters["hole_judged"] = 1
            # a refusal at construction is also "no sequences", but the statement says synthesis reports it
            if cerr["exc"] not in ("ValueError", "RuntimeError") or cerr.get("in_predicate"):
                viol.append(D.exc_violation(cerr, "constructor", kind="hole_constructor_crash"))
        return {"nontrivial": variant == "hole", "violations": viol, "counters": counters, "cls": variant}
    fl = ref.analyze(spec)
    if variant == "hole":
        counters["hole_judged"] = 1
        for strat in ("IterateSATGen", "RandomGen"):
            b2, _, e2 = O.construct(spec)
            r, err, out = O.synth(b2, 3, strat)
            if err:
                viol.append(D.exc_violation(err, strat, kind="hole_exception"))
            elif r:
                viol.append({"kind": "hole_sequences_returned", "strategy": strat,
                             "msg": "%s returned %d sequences although no level of %s accepts %s" % (
                                 strat, len(r), target, [k for k, v in spec["factors"][target]["table"].items() if v is None])})
            elif target not in out or "has a precicate that matches" not in out and "No level" not in out:
                viol.append({"kind": "hole_not_reported", "strategy": strat,
                             "msg": "%s returned [] but printed no error naming %s: %r" % (strat, target, out[-300:])})
        return {"nontrivial": True, "violations": viol[:4], "counters": counters, "cls": variant,
                "sample": {"variant": variant, "target": target, "spec": D.small(spec)}}
    # proper
    judged = 0
    for strat in ("IterateSATGen", "RandomGen"):
        r, err, st = D.run_strategy(spec, strat, 6, 15)
        if (st == "ok" and not err and r == [] and strat == "IterateSATGen" and case.get("cls") == "late_start_dep"
                and not (fl.ctor_err or fl.und or fl.und_T or fl.T is None)):
            # a total, unambiguous derived factor must not empty the solution space: (appended simple class only -
            # no exclusions, weights or preamble-dependent crossings - so that R's verdict 'a valid sequence exists'
            # carries no known finding)
            rv = ref.enumerate_valid(spec, fl, cap=1, node_cap=60000)
            counters["empty_results_checked_against_R"] = counters.get("empty_results_checked_against_R", 0) + 1
            if rv:
                viol.append({"kind": "total_factor_no_sequences", "strategy": strat,
                             "msg": "%s returned no sequence for a design whose derived factors are total and unambiguous; "
                                    "a valid sequence: %s" % (strat, json.dumps(rv[0])[:300])})
        if st != "ok" or err or not r:
            continue
        for s in r:
            judged += 1
            for n in fl.design:
                if spec["factors"][n]["kind"] != "derived" or n not in s:
                    continue
                for t in range(len(s[n])):
                    if S.applies(spec, n, t):
                        idx = ref.derive(spec, n, s, t)
                        want = spec["factors"][n]["levels"][idx][0] if idx is not None else None
                    else:
                        want = ""
                    if s[n][t] != want:
                        viol.append({"kind": "wrong_derived_level", "strategy": strat,
                                     "msg": "%s: derived factor %s at trial %d is %r, its window gives %r ; %s"
                                            % (strat, n, t, s[n][t], want, json.dumps(s)[:300])})
                        break
            if len(viol) > 3:
                break
    counters["proper_sequences_judged"] = judged
    return {"nontrivial": judged > 0, "violations": viol[:4], "counters": counters, "cls": variant,
            "sample": {"variant": variant, "spec": D.small(spec), "sequences_judged": judged}}
