"""C24 — documented block-combinator equivalences hold.

Observed: both sides of each documented law, built from the same spec with fresh objects:
  L1 MultiCrossBlock(design, crossings, cs, rcc, mode, alignment) == Merge([CrossBlock(design, c, [], rcc)...], cs, mode, alignment)
  L2 Repeat(block, cs) == Merge([block], cs, REPEAT, EQUAL_PREAMBLE)
  L3 Repeat(block, []) == block == Merge([block])
  L4 CrossBlock(design, crossing, cs) == MultiCrossBlock(design, [crossing], cs) in WEIGHT mode
Oracle: same constructor outcome (both refuse or neither), same trials_per_sample(), same exhausted IterateSATGen
set (<= CAP) and same exhausted RandomGen set where both sides accept it. No reference model involved.
"""
import copy
import random

from vlib import designs as D, observe as O, gen, spec as S

ID = "C24"
RULE = ("cases = (law, base spec): L1 from generated MultiCrossBlock specs (all modes/alignments), L2/L3 from "
        "generated flat and multi-cross blocks with MinimumTrials / extra constraints, L4 from generated flat "
        "blocks. non-trivial = both sides constructed and their exhausted solution sets (<= CAP) were compared; "
        "distinct = (law, spec hash)")
ASSUMPTIONS = ["pycryptosat is a correct SAT solver", "sequences are compared by level names"]
MINIMUMS = {"quick": {"pairs_compared": 90, "pairs_compared_nonempty": 45, "L1": 25, "L2": 15, "L3": 25, "L4": 15},
            "thorough": {"pairs_compared": 315, "pairs_compared_nonempty": 157, "L1": 87, "L2": 52, "L3": 87, "L4": 52}}
CASE_TIMEOUT = 200
CAP = 400


def cases(tier, seed):
    n = 1000 if tier == "thorough" else 200
    out = []
    for i in range(n):
        rng = random.Random("c24/%s/%d" % (seed, i))
        law = ["L1", "L1", "L2", "L3", "L4"][i % 5]
        if law == "L1":
            a = gen.gen_multicross(rng)
            b = copy.deepcopy(a)
            t = a["block"]
            b["block"] = {"op": "merge",
                          "blocks": [{"op": "cross", "design": list(t["design"]), "crossings": [list(c)], "cons": [],
                                      "rcc": t["rcc"], "mode": "weight", "align": "equal", "ctor": "CrossBlock"}
                                     for c in t["crossings"] if c],
                          "cons": copy.deepcopy(t["cons"]), "mode": t["mode"], "align": t["align"]}
            pairs = [(a, b)]
        elif law == "L2":
            a = gen.gen_repeat(rng)
            b = copy.deepcopy(a)
            b["block"] = {"op": "merge", "blocks": [copy.deepcopy(a["block"]["block"])],
                          "cons": copy.deepcopy(a["block"]["cons"]), "mode": "repeat", "align": "equal"}
            pairs = [(a, b)]
        elif law == "L3":
            base = gen.gen_flat(rng, rng.choice(["K1", "K3", "K4", "K5", "K6"]), max_size=6) if rng.random() < 0.7 \
                else gen.gen_multicross(rng)
            r = copy.deepcopy(base)
            r["block"] = {"op": "repeat", "block": copy.deepcopy(base["block"]), "cons": []}
            m = copy.deepcopy(base)
            m["block"] = {"op": "merge", "blocks": [copy.deepcopy(base["block"])], "cons": [], "mode": "repeat",
                          "align": None}
            pairs = [(base, r), (base, m)]
        else:
            a = gen.gen_flat(rng, rng.choice(["K1", "K2", "K3", "K4", "K5", "K6", "K7"]), max_size=6)
            b = copy.deepcopy(a)
            b["block"]["ctor"] = "MultiCrossBlock"
            b["block"]["mode"] = "weight"
            b["block"]["align"] = "equal"
            pairs = [(a, b)]
        for j, (x, y) in enumerate(pairs):
            out.append({"cls": law, "law": law, "spec_a": x, "spec_b": y, "sub": j})
    return out


def side(spec):
    b, pool, e = O.construct(spec)
    if e:
        return {"ctor": e}
    T = b.trials_per_sample()
    s, es, ss = D.exhaust(spec, "IterateSATGen", CAP, 60)
    r, er, sr = D.exhaust(spec, "RandomGen", CAP, 10)
    return {"ctor": None, "T": T,
            "sat": (set(O.seq_key(x) for x in s) if ss == "ok" and not es else None), "sat_status": ss if not es else "raised:" + es["exc"],
            "rnd": (set(O.seq_key(x) for x in r) if sr == "ok" and not er else None), "rnd_status": sr if not er else "raised:" + er["exc"]}


def run_case(case):
    a = side(case["spec_a"])
    b = side(case["spec_b"])
    law = case["law"]
    counters = {}
    viol = []
    if (a["ctor"] is None) != (b["ctor"] is None):
        bad = a["ctor"] or b["ctor"]
        viol.append({"kind": "constructor_outcome", "law": law, "exc": bad["exc"], "func": bad["func"],
                     "refused_side": "a" if a["ctor"] else "b",
                     "msg": "%s: one side constructs, the other raises %s in %s: %s" % (law, bad["exc"], bad["func"], bad["msg"][:160])})
        return {"nontrivial": False, "violations": viol, "counters": {"one_side_refused": 1}}
    if a["ctor"]:
        return {"nontrivial": False, "violations": [], "counters": {"both_refused": 1}}
    if a["T"] != b["T"]:
        viol.append({"kind": "trial_count", "law": law, "msg": "%s: trials_per_sample %s vs %s" % (law, a["T"], b["T"])})
    compared = False
    for key, name in (("sat", "IterateSATGen"), ("rnd", "RandomGen")):
        if a[key] is None or b[key] is None:
            st = (a[key + "_status"], b[key + "_status"])
            counters["%s_not_compared" % key] = 1
            if (a[key] is None) != (b[key] is None) and "raised" in (st[0] + st[1]):
                viol.append({"kind": "one_side_raises", "law": law, "strategy": name, "statuses": list(st),
                             "msg": "%s: %s status differs between the sides: %s vs %s" % (law, name, st[0], st[1])})
            continue
        compared = True
        counters[key + "_compared"] = 1
        if a[key] != b[key]:
            oa, ob = sorted(a[key] - b[key]), sorted(b[key] - a[key])
            viol.append({"kind": "sets_differ", "law": law, "strategy": name, "n_a": len(a[key]), "n_b": len(b[key]),
                         "msg": "%s: %s solution sets differ (%d vs %d); only left: %s ; only right: %s"
                                % (law, name, len(a[key]), len(b[key]), (oa[:1] or [""])[0][:220], (ob[:1] or [""])[0][:220])})
    if compared:
        counters["pairs_compared"] = 1
        counters[law] = 1
        if (a["sat"] or a["rnd"]):
            counters["pairs_compared_nonempty"] = 1
    return {"nontrivial": compared, "dkey": law + S.spec_hash(case["spec_a"]) + str(case["sub"]), "violations": viol[:4],
            "counters": counters,
            "sample": {"law": law, "left": D.small(case["spec_a"])["block"], "right": D.small(case["spec_b"])["block"],
                       "T": a["T"], "n_solutions": None if a["sat"] is None else len(a["sat"])}}
