"""C19 — a block stays usable and unchanged across library calls.

Observed: random call histories (length 4-9) on one block — synthesize_trials with IterateSATGen / RandomGen /
CMSGen, print_experiments, tabulate_experiments, save_experiments_csv, experiments_to_tuples, experiments_to_dicts,
sample_mismatch_experiment — with a snapshot of the block's observable state around every call: names and order of
block.design, names of block.continuous_factors, crossings, trials_per_sample(), number and repr of constraints,
block.errors.
Oracle: the snapshot never changes; after the first successful synthesize_trials every later synthesize_trials on
the same block returns (no exception) sequences with the same set of columns, each valid for the design (reference
model for the discrete part, vlib/cont.py probes for the continuous part).
"""
import os
import random
import tempfile

from vlib import designs as D, observe as O, ref, gen, cont, spec as S
from vlib.props.c22 import gen_cspec

ID = "C19"
RULE = ("cases = a generated flat design (half of them with 1-3 continuous factors) and a random history of 4-9 "
        "library calls that starts with a synthesize_trials; non-trivial = the first synthesis returned >= 1 "
        "sequence and at least 2 later synthesize_trials calls were judged; distinct = case contents")
ASSUMPTIONS = ["reference model R for the discrete part", "the snapshot lists the observable design state"]
MINIMUMS = {"quick": {"calls_made": 1500, "later_synth_judged": 350, "histories_with_continuous": 70, "print_calls": 150},
            "thorough": {"calls_made": 5250, "later_synth_judged": 1225, "histories_with_continuous": 245, "print_calls": 525}}
CASE_TIMEOUT = 90
OPS = ["synth_sat", "synth_random", "synth_cms", "print", "print", "tabulate", "csv", "tuples", "dicts", "mismatch"]


def cases(tier, seed):
    n = 1600 if tier == "thorough" else 300
    out = []
    for i in range(n):
        rng = random.Random("c19/%s/%d" % (seed, i))
        cs = gen_cspec(rng)
        if i % 2 == 0:
            cs["cont"], cs["ccons"] = [], []
        hist = [rng.choice(["synth_sat", "synth_random"])] + [rng.choice(OPS) for _ in range(rng.randint(3, 8))]
        if not any(h.startswith("synth") for h in hist[2:]):
            hist.append(rng.choice(["synth_sat", "synth_random"]))
        out.append({"cls": "cont" if cs["cont"] else "discrete", "cspec": cs, "history": hist})
    # appended stream: histories on the other design classes (LatinSquare, Sequential, combinators, several crossings;
    # constraints and combinators may keep state of their own). Where the reference model leaves validity undecided
    # the later sequences are compared with what a FRESH block of the same design can return.
    from vlib import gen2
    wide = ["K13", "K13", "K12", "K6", "K13", "K8", "K9", "K11", "K4", "A3"]
    for i in range(500 if tier == "thorough" else 90):
        rng = random.Random("c19w/%s/%d" % (seed, i))
        cls = wide[i % len(wide)]
        base = gen2.KINDS[cls](rng) if cls in gen2.KINDS else gen.gen_spec(rng, cls)
        hist = [rng.choice(["synth_sat", "synth_random"])] + [rng.choice(OPS + ["mismatch_bad", "synth_random"])
                                                              for _ in range(rng.randint(3, 7))]
        hist.append("synth_sat")
        out.append({"cls": "wide-" + cls, "cspec": {"base": base, "cont": [], "ccons": []}, "history": hist})
    return out


FRESH_CAP = 400


def fresh_set(cspec, strat):
    """every sequence an unused block of the same design can return with this kind of sampler (None if too many /
    it fails)"""
    r, err, st = D.exhaust(cspec["base"], strat, FRESH_CAP, 12)
    if err or st != "ok":
        return None
    return set(O.seq_key(e) for e in r)


def snapshot(block):
    return {"design": [str(getattr(f.name, "name", f.name)) + ("#hidden" if not isinstance(f.name, str) else "") for f in block.design],
            "continuous": [f.name for f in block.continuous_factors],
            "crossings": [[str(getattr(f.name, "name", f.name)) for f in c] for c in block.crossings],
            "T": block.trials_per_sample(),
            "n_constraints": len(block.constraints),
            "constraints": sorted(type(c).__name__ for c in block.constraints),
            "errors": sorted(str(e) for e in block.errors)}


def run_case(case):
    import sweetpea as sp
    cspec = case["cspec"]
    counters = {}
    r, err, out = O.quiet(cont.build, cspec)
    if err:
        return {"nontrivial": False, "violations": [], "counters": {"rejected_by_constructor": 1}}
    block, probes = r
    fl = ref.analyze(cspec["base"])
    decided = not (fl.ctor_err or fl.und_T or fl.und or fl.T is None)
    user = S.tree_design(cspec["base"]["block"])
    base = snapshot(block)
    if decided and base["T"] != fl.T:
        # the trial count itself is C16's subject; validity against R is then not decidable here
        decided = False
        counters["trial_count_differs_from_R"] = 1
    viol = []
    exps = None
    first_keys = None
    later = 0
    calls = 0
    strat = {"synth_sat": "IterateSATGen", "synth_random": "RandomGen", "synth_cms": "CMSGen"}
    fresh_by = {}
    wide = case["cls"].startswith("wide-")
    for step, op in enumerate(case["history"]):
        calls += 1
        res, err = None, None
        if op.startswith("synth"):
            if wide:
                res, err, st = D.call_budgeted(8, sp.synthesize_trials, block, 2, getattr(sp, strat[op]))
                if st == "timeout":
                    # a call that does not return within the budget is not judged, and the block is not used further
                    counters["synth_budget_exceeded"] = 1
                    break
            else:
                res, err, out = O.quiet(sp.synthesize_trials, block, 2, getattr(sp, strat[op]))
            if first_keys is None:
                if err or not res:
                    counters["first_synthesis_failed_or_empty"] = 1
                    break
                first_keys = set(res[0])
                exps = res
            else:
                if err:
                    # is it the history, or does this strategy fail on a fresh block of the same design too
                    # (then it is C08's subject, not this property's)?
                    fresh, e2, _ = O.quiet(cont.build, cspec)
                    r2, err2, _ = O.quiet(sp.synthesize_trials, fresh[0], 2, getattr(sp, strat[op]))
                    if err2 and err2["exc"] == err["exc"] and err2["func"] == err["func"]:
                        counters["raises_on_fresh_block_too"] = counters.get("raises_on_fresh_block_too", 0) + 1
                        continue
                    viol.append(D.exc_violation(err, strat[op], kind="later_synthesis_raised", step=step,
                                                history=case["history"][:step + 1]))
                    break
                later += 1
                for e in res:
                    why = []
                    if set(e) != first_keys:
                        why.append("columns %s, first call returned %s" % (sorted(e), sorted(first_keys)))
                    else:
                        why += cont.check_sequence(cspec, e, base["T"])
                        if decided:
                            why += ref.valid(cspec["base"], fl, {k: v for k, v in e.items() if k in user})
                        elif wide and not cspec["cont"]:
                            fam = "RandomGen" if op == "synth_random" else "IterateSATGen"
                            if fam not in fresh_by:
                                fresh_by[fam] = fresh_set(cspec, fam)
                            fresh_seqs = fresh_by[fam]
                            if fresh_seqs is not None:
                                counters["judged_against_fresh_block"] = counters.get("judged_against_fresh_block", 0) + 1
                                if O.seq_key(e) not in fresh_seqs:
                                    why.append("an unused block of the same design never returns this sequence "
                                               "(it returns %d others)" % len(fresh_seqs))
                    if why:
                        viol.append({"kind": "later_synthesis_invalid", "strategy": strat[op], "step": step,
                                     "msg": "after %s: %s returned %s ; %s" % (case["history"][:step], strat[op], str(e)[:200], why[0][:300])})
                        break
                if res:
                    exps = res
        elif exps is None:
            continue
        elif op == "print":
            counters["print_calls"] = counters.get("print_calls", 0) + 1
            res, err, out = O.quiet(sp.print_experiments, block, exps)
        elif op == "tabulate":
            res, err, out = O.quiet(sp.tabulate_experiments, block, exps)
        elif op == "csv":
            with tempfile.TemporaryDirectory(dir=".") as d:
                res, err, out = O.quiet(sp.save_experiments_csv, block, exps, os.path.join(d, "e"))
        elif op == "tuples":
            res, err, out = O.quiet(sp.experiments_to_tuples, block, exps)
        elif op == "dicts":
            res, err, out = O.quiet(sp.experiments_to_dicts, block, exps)
        elif op == "mismatch":
            disc = {k: v for k, v in exps[0].items() if k in user}
            res, err, out = O.quiet(sp.sample_mismatch_experiment, block, disc)
        elif op == "mismatch_bad":
            # a candidate that (usually) does not conform: two trials of one column swapped / one level replaced
            disc = {k: list(v) for k, v in exps[0].items() if k in user}
            rr = random.Random("%s/%d" % (S.spec_hash(cspec["base"]), step))
            col = rr.choice(sorted(disc))
            if len(disc[col]) >= 2:
                i, j = rr.sample(range(len(disc[col])), 2)
                disc[col][i] = disc[col][j]
            res, err, out = O.quiet(sp.sample_mismatch_experiment, block, disc)
        if err and not op.startswith("synth"):
            counters["aux_call_raised"] = counters.get("aux_call_raised", 0) + 1
        now = snapshot(block)
        if now != base:
            diff = {k: (base[k], now[k]) for k in base if base[k] != now[k]}
            viol.append({"kind": "block_changed", "op": op, "fields": sorted(diff), "step": step,
                         "msg": "after call %d (%s) of %s the block changed: %s" % (step, op, case["history"], str(diff)[:400])})
            break
        if viol:
            break
    counters["calls_made"] = calls
    counters["later_synth_judged"] = later
    if cspec["cont"]:
        counters["histories_with_continuous"] = 1
    return {"nontrivial": later >= 2, "violations": viol[:3], "counters": counters,
            "sample": {"history": case["history"], "design": base["design"], "continuous": base["continuous"], "T": base["T"]}}
