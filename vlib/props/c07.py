"""C07 — SAT-based and combinatoric samplers agree on the solution space (no reference model involved).

Observed: exhausted IterateSATGen and exhausted RandomGen on two fresh builds of the same spec.
Oracle: equality of the two sets of printed sequences.
"""
from vlib import designs as D, observe as O

ID = "C07"
RULE = ("cases = generated design specs of classes K1-K11 (R-UNDECIDED designs included); non-trivial = both "
        "samplers accepted the design, both were exhausted (<= CAP sequences, RandomGen within its time budget) and "
        "the two sets were compared; distinct = distinct spec hashes")
ASSUMPTIONS = ["pycryptosat is a correct SAT solver", "sequences are compared by level names (copy-insensitive)"]
MINIMUMS = {"quick": {"compared": 120, "compared_nonempty": 60, "sequences_compared": 2000},
            "thorough": {"compared": 420, "compared_nonempty": 210, "sequences_compared": 7000}}
CASE_TIMEOUT = 150
CAP = 600


def cases(tier, seed):
    from vlib import gen
    # the samplers differ most where RandomGen counts by itself: preambles, exclusions, uncrossed sources (K12)
    out = D.spec_cases(tier, seed, gen.CLASSES + ["K12", "K7", "K12"], 340, 1900, "c07")
    # appended stream: combinators around blocks with transition/window factors (undecided for R, fine for a
    # differential oracle)
    import random
    from vlib.props.c08 import nest_with_windows
    for i in range(250 if tier == "thorough" else 40):
        out.append({"cls": "combinator-with-window", "spec": nest_with_windows(random.Random("c07w/%s/%d" % (seed, i)))})
    from vlib import gen2
    return out + gen2.appended(tier, seed, "c07", ["A1", "A2", "A3", "A4", "A6"], 80, 500)


def run_case(case):
    p = D.prepare(case)
    if p.result:
        return p.result
    counters = p.counters
    a, ea, sa = D.exhaust(p.spec, "IterateSATGen", CAP, 40)
    if sa != "ok" or ea:
        counters["sat_" + (sa if sa != "ok" else "raised")] = 1
        return {"nontrivial": False, "violations": [], "counters": counters}
    b, eb, sb = D.exhaust(p.spec, "RandomGen", CAP, 15)
    if sb != "ok" or eb:
        counters["random_" + (sb if sb != "ok" else "raised")] = 1
        return {"nontrivial": False, "violations": [], "counters": counters}
    A = set(O.seq_key(s) for s in a)
    B = set(O.seq_key(s) for s in b)
    viol = []
    if A != B:
        only_a = sorted(A - B)
        only_b = sorted(B - A)
        viol.append({"kind": "sets_differ", "only_sat": len(only_a), "only_random": len(only_b),
                     "sat_empty": not A, "random_empty": not B, "n_sat": len(A), "n_random": len(B),
                     "R_undecided": bool(p.fl.und or p.fl.und_T),
                     "msg": "IterateSATGen can return %d sequences, RandomGen %d; only SAT: %s ; only RandomGen: %s"
                            % (len(A), len(B), (only_a[:1] or [""])[0][:260], (only_b[:1] or [""])[0][:260])})
    counters["compared"] = 1
    counters["compared_nonempty" if A or B else "compared_empty"] = 1
    counters["sequences_compared"] = len(A | B)
    if p.fl.und:
        counters["compared_R_undecided"] = 1
    return {"nontrivial": True, "violations": viol, "counters": counters,
            "sample": {"spec": D.small(p.spec), "n_sat": len(A), "n_random": len(B)}}
