"""C26 — block constraints apply per repetition; combinator constraints apply globally.

Observed: exhausted IterateSATGen (and RandomGen) sets of three builds of one generated design: without the
constraint c (S0), with c given to the original block (S1), with c given to the combinator (S2); combinators:
Repeat (aligned repetitions, with and without a preamble), Merge in REPEAT mode (a short block repeating inside a
longer one) and Nest (inner block per group).
Oracle (needs no reference model of the combinators): S1 == {s in S0 : c holds inside every repetition window of
the block, the window including the preceding preamble trials}; S2 == {s in S0 : c holds over the whole sequence}.
c is evaluated by an independent run-length / count / pin evaluator (vlib/ref.py con_ok).
"""
import copy
import json
import random

from vlib import designs as D, observe as O, ref, gen, spec as S

ID = "C26"
RULE = ("cases = (combinator, base design, constraint c): combinator in Repeat x2-3 / Repeat with transition preamble "
        "/ Merge(REPEAT) / Nest, and (appended) POST_PREAMBLE-aligned Nest (c on the outer or on the inner block) and "
        "Merge; c in AtMostKInARow, AtLeastKInARow, ExactlyKInARow, ExactlyK, Pin (index may be "
        "negative) on a basic or within-trial derived level. non-trivial = S0, S1, S2 all exhausted (<= CAP) and "
        "S0 non-empty; distinct = case contents")
ASSUMPTIONS = ["repetition window m of a block of T_B trials with p preamble trials = trials [m(T_B-p), m(T_B-p)+T_B)",
               "under POST_PREAMBLE the first window of a block starts at (common preamble - the block's own preamble)",
               "the unconstrained set S0 returned by IterateSATGen is taken as the universe that c filters"]
MINIMUMS = {"quick": {"triples_compared": 90, "boundary_sensitive": 25, "repeat": 20, "merge": 10, "nest": 10, "repeat_preamble": 5,
                      "nest_outer_post": 6, "nest_inner_post": 6, "merge_post": 6},
            "thorough": {"triples_compared": 315, "boundary_sensitive": 87, "repeat": 70, "merge": 35, "nest": 35, "repeat_preamble": 17,
                         "nest_outer_post": 21, "nest_inner_post": 21, "merge_post": 21}}
CASE_TIMEOUT = 240
CAP = 700
TYPES = ["AtMostKInARow", "AtMostKInARow", "AtLeastKInARow", "ExactlyKInARow", "ExactlyK", "Pin", "Pin"]


def basic(name, levels):
    return {"kind": "basic", "levels": [[l, 1] for l in levels]}


def cross(design, crossing, cons):
    return {"op": "cross", "design": design, "crossings": [crossing], "cons": cons, "rcc": True, "mode": "weight",
            "align": "equal", "ctor": "CrossBlock"}


def cases(tier, seed):
    n = 1000 if tier == "thorough" else 190
    out = []
    for i in range(n):
        rng = random.Random("c26/%s/%d" % (seed, i))
        comb = ["repeat", "repeat", "merge", "nest", "repeat_preamble"][i % 5]
        spec = {"factors": {}, "order": [], "block": None}
        spec["factors"]["A"] = basic("A", ["a0", "a1"] if rng.random() < 0.6 else ["a0", "a1", "a2"])
        spec["factors"]["B"] = basic("B", ["b0", "b1"])
        spec["order"] = ["A", "B"]
        targets = ["A", "B"]
        if rng.random() < 0.4 and comb != "repeat_preamble":
            gen.add_derived(rng, spec, "W", "within", deps=["A", "B"], else_level=False)
            targets.append("W")
        if comb == "repeat_preamble":
            gen.add_derived(rng, spec, "Tr", "transition", deps=["A"], else_level=False)
            spec["factors"]["Tr"]["levels"] = spec["factors"]["Tr"]["levels"][:2]
            for k in spec["factors"]["Tr"]["table"]:
                spec["factors"]["Tr"]["table"][k] %= 2
        names = list(spec["order"])
        if comb in ("repeat", "repeat_preamble") and rng.random() < 0.35:
            # a weighted level of a factor outside the crossing: the block desugars it (hidden factor), and a
            # constraint on that level is rebuilt for the desugared factor
            spec["factors"]["B"]["levels"][rng.randrange(2)][1] = 2
        if comb == "repeat":
            base = cross(names, ["A"], [])
            TB, p = len(spec["factors"]["A"]["levels"]), 0
            reps = rng.choice([2, 2, 3])
            T = TB * reps
            mk = lambda inner, outerc: {"op": "repeat", "block": cross(names, ["A"], inner),
                                        "cons": [{"type": "MinimumTrials", "trials": T}] + outerc}
        elif comb == "repeat_preamble":
            spec["factors"]["A"] = basic("A", ["a0", "a1"])
            # crossing the transition factor: preamble of one trial, 2 crossing trials per repetition
            TB, p = 3, 1
            reps = 2
            T = p + (TB - p) * reps
            mk = lambda inner, outerc: {"op": "repeat", "block": cross(names, ["Tr"], inner),
                                        "cons": [{"type": "MinimumTrials", "trials": T}] + outerc}
            targets = ["A", "B"]
        elif comb == "merge":
            spec["factors"]["C"] = basic("C", ["c0", "c1", "c2", "c3"])
            spec["order"].append("C")
            spec["factors"]["A"] = basic("A", ["a0", "a1"])
            names = ["A", "C"] if rng.random() < 0.6 else ["A", "B", "C"]
            if len(names) == 3:
                spec["factors"]["C"] = basic("C", ["c0", "c1", "c2"])
                spec["factors"]["C"]["levels"].append(["c3", 1])
            targets = [t for t in targets if t in names]
            TB, p, T = 2, 0, 4
            mk = lambda inner, outerc: {"op": "merge", "blocks": [cross(names, ["A"], inner), cross(names, ["C"], [])],
                                        "cons": outerc, "mode": "repeat", "align": None}
        else:
            spec["factors"]["O"] = basic("O", ["o0", "o1"])
            spec["order"] = ["O"] + spec["order"]
            TB, p = len(spec["factors"]["A"]["levels"]), 0
            T = 2 * TB
            mk = lambda inner, outerc: {"op": "nest", "outer": cross(["O"], ["O"], []), "inner": cross(names, ["A"], inner),
                                        "cons": outerc}
        ty = rng.choice(TYPES)
        f = rng.choice(targets)
        c = {"type": ty, "factor": f, "level": rng.choice(spec["factors"][f]["levels"])[0]}
        if ty == "Pin":
            c["index"] = rng.choice([0, 1, -1, -2, TB - 1, TB, -TB])
        else:
            c["k"] = rng.choice([1, 1, 2, 2, 3])
        s0, s1, s2 = copy.deepcopy(spec), copy.deepcopy(spec), copy.deepcopy(spec)
        s0["block"] = mk([], [])
        s1["block"] = mk([c], [])
        s2["block"] = mk([], [c])
        out.append({"cls": comb + "/" + ty, "comb": comb, "c": c, "TB": TB, "p": p, "T": T,
                    "spec0": s0, "spec1": s1, "spec2": s2})
    # appended (after the third round of seeded changes): POST_PREAMBLE alignment, where the repetitions of a block
    # start after the COMMON preamble. Design: A, Tr = transition(A) (crossed: one preamble trial), and a second
    # crossing without preamble.
    #   nest_outer_post : c on the outer block [A, Tr] of Nest(outer, [S]); the outer block occurs once, its window
    #                     is the whole sequence including the sustained preamble (run-length types only: ExactlyK
    #                     and Pin on an outer block are scaled by the inner length, and the documentation does not
    #                     say what that means for a factor the outer block does not hold constant)
    #   nest_inner_post : c on the inner block [S]; its repetitions are the groups after the common preamble
    #   merge_post      : c on the block [B] of Merge([[A,Tr] block, [B] block], REPEAT, POST_PREAMBLE); its
    #                     repetitions start after the common preamble
    for i in range(180 if tier == "thorough" else 36):
        rng = random.Random("c26post/%s/%d" % (seed, i))
        comb = ["nest_outer_post", "nest_inner_post", "merge_post"][i % 3]
        spec = {"factors": {}, "order": ["A"], "block": None}
        spec["factors"]["A"] = basic("A", ["a0", "a1"])
        gen.add_derived(rng, spec, "Tr", "transition", deps=["A"], else_level=False)
        spec["factors"]["Tr"]["levels"] = spec["factors"]["Tr"]["levels"][:2]
        for k in spec["factors"]["Tr"]["table"]:
            a = json.loads(k)
            spec["factors"]["Tr"]["table"][k] = 0 if a[0] == a[1] else 1
        al = "post"
        as_str = rng.random() < 0.3
        if comb.startswith("nest"):
            spec["factors"]["S"] = basic("S", ["s0", "s1"])
            spec["order"] = ["A", "Tr", "S"]
            L = 2
            T = 3 * L
            odesign = rng.choice([["A", "Tr"], ["Tr", "A"]])
            if comb == "nest_outer_post":
                TB, p, off = T, L, 0
                mk = lambda inner, outerc: {"op": "nest", "outer": cross(list(odesign), ["Tr"], inner),
                                            "inner": cross(["S"], ["S"], []), "cons": outerc, "align": al}
                ty = rng.choice(["AtMostKInARow", "AtMostKInARow", "AtLeastKInARow", "ExactlyKInARow"])
                c = {"type": ty, "factor": "A", "level": rng.choice(["a0", "a1"]), "k": rng.choice([1, 1, 2, 2, 3])}
            else:
                TB, p, off = L, 0, L
                mk = lambda inner, outerc: {"op": "nest", "outer": cross(list(odesign), ["Tr"], []),
                                            "inner": cross(["S"], ["S"], inner), "cons": outerc, "align": al}
                ty = rng.choice(TYPES)
                c = {"type": ty, "factor": "S", "level": rng.choice(["s0", "s1"])}
                if ty == "Pin":
                    c["index"] = rng.choice([0, 1, -1, -2])
                else:
                    c["k"] = rng.choice([1, 1, 2, 2])
        else:
            spec["factors"]["B"] = basic("B", ["b0", "b1"])
            spec["order"] = ["A", "Tr", "B"]
            names = ["A", "Tr", "B"]
            T = 5
            TB, p, off = 2, 0, 1
            mk = lambda inner, outerc: {"op": "merge", "blocks": [cross(list(names), ["A", "Tr"], []),
                                                                  cross(list(names), ["B"], inner)],
                                        "cons": outerc, "mode": "repeat", "align": al, "as_str": as_str}
            ty = rng.choice(TYPES)
            f = rng.choice(["B", "B", "A"])
            c = {"type": ty, "factor": f, "level": rng.choice(spec["factors"][f]["levels"])[0]}
            if ty == "Pin":
                c["index"] = rng.choice([0, 1, -1, -2])
            else:
                c["k"] = rng.choice([1, 1, 2, 2])
        s0, s1, s2 = copy.deepcopy(spec), copy.deepcopy(spec), copy.deepcopy(spec)
        s0["block"] = mk([], [])
        s1["block"] = mk([c], [])
        s2["block"] = mk([], [c])
        out.append({"cls": comb + "/" + ty, "comb": comb, "c": c, "TB": TB, "p": p, "T": T, "off": off,
                    "spec0": s0, "spec1": s1, "spec2": s2})
    return out


def windows(T, TB, p, off=0):
    """off: first trial of the first repetition's window (POST_PREAMBLE: common preamble minus the block's own)"""
    res = []
    st = off
    while st < T - p:
        res.append((st, st + TB))
        st += TB - p
    return res


def holds(spec, c, vals):
    return ref.con_ok(spec, c, vals)


def run_case(case):
    c, TB, p, T = case["c"], case["TB"], case["p"], case["T"]
    counters = {}
    sets = {}
    for strat in ("IterateSATGen", "RandomGen"):
        got = []
        for k in ("spec0", "spec1", "spec2"):
            r, err, st = D.exhaust(case[k], strat, case.get("cap", CAP), 60 if strat == "IterateSATGen" else 15)
            if err or st != "ok":
                got = None
                counters["%s_%s" % (strat.lower(), ("raised" if err else st))] = 1
                break
            got.append(r)
        if got:
            sets[strat] = got
    viol = []
    compared = False
    for strat, (r0, r1, r2) in sets.items():
        if not r0:
            continue
        if any(len(s[c["factor"]]) != T for s in r0[:1]):
            counters["unexpected_length"] = 1
            continue
        S0 = {O.seq_key(s): s for s in r0}
        S1 = set(O.seq_key(s) for s in r1)
        S2 = set(O.seq_key(s) for s in r2)
        want1 = set(k for k, s in S0.items()
                    if all(b <= T and holds(case["spec0"], c, s[c["factor"]][a:b]) for a, b in windows(T, TB, p, case.get("off", 0))))
        want2 = set(k for k, s in S0.items() if holds(case["spec0"], c, s[c["factor"]]))
        compared = True
        if want1 != want2:
            counters["boundary_sensitive"] = 1
        for nm, got, want, where in (("block", S1, want1, "inside every repetition"), ("combinator", S2, want2, "over the whole sequence")):
            if got != want:
                extra, missing = sorted(got - want), sorted(want - got)
                viol.append({"kind": "scope_" + nm, "strategy": strat, "comb": case["comb"], "ctype": c["type"],
                             "n_extra": len(extra), "n_missing": len(missing),
                             "msg": "%s, constraint %s given to the %s: %d sequences returned, %d of the unconstrained %d satisfy "
                                    "it %s; returned but not satisfying: %s ; satisfying but not returned: %s"
                                    % (strat, c, nm, len(got), len(want), len(S0), where, (extra[:1] or [""])[0][:200],
                                       (missing[:1] or [""])[0][:200])})
    if compared:
        counters["triples_compared"] = 1
        counters[case["comb"]] = 1
    return {"nontrivial": compared, "violations": viol[:4], "counters": counters,
            "sample": {"combinator": D.small(case["spec1"])["block"], "constraint": c, "T": T, "block_trials": TB,
                       "preamble": p, "sizes": {k: [len(x) for x in v] for k, v in sets.items()}}}
