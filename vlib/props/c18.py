"""C18 — reusing factor and constraint objects across blocks does not change meaning.

Observed: a history of block constructions from ONE pool of factor objects and constraint objects (a constraint dict
with the same "share" key is the same Python object in every block that uses it): 2-4 blocks (CrossBlock with
different crossings/lengths, MultiCrossBlock, Repeat, Merge, Nest) built in a random order, interleaved with
synthesize_trials calls on blocks built earlier; versus every block built alone from fresh objects.
Oracle per block: trials_per_sample(), the exhausted IterateSATGen set, the exhausted RandomGen set and the
mismatch verdicts on a fixed candidate list are identical between the shared-history build and the fresh build.
"""
import copy
import random

from vlib import designs as D, observe as O, build as B, gen, spec as S

ID = "C18"
RULE = ("cases = a family of 2-4 block trees over one factor pool, some constraints shared as objects between "
        "blocks, a construction order and interleaved synthesis calls; non-trivial = at least 2 blocks compared "
        "(fresh vs shared) with exhausted sets; distinct = case contents")
ASSUMPTIONS = ["pycryptosat is a correct SAT solver", "sets compared by level names"]
MINIMUMS = {"quick": {"blocks_compared": 120, "histories": 50, "shared_constraint_blocks": 40, "mismatch_verdicts_compared": 400},
            "thorough": {"blocks_compared": 420, "histories": 175, "shared_constraint_blocks": 140, "mismatch_verdicts_compared": 1400}}
CASE_TIMEOUT = 300
CAP = 300


def basic(levels):
    return {"kind": "basic", "levels": [[l, 1] for l in levels]}


def cross(design, crossing, cons):
    return {"op": "cross", "design": design, "crossings": [crossing], "cons": cons, "rcc": True, "mode": "weight",
            "align": "equal", "ctor": "CrossBlock"}


def cases(tier, seed):
    n = 400 if tier == "thorough" else 80
    out = []
    for i in range(n):
        rng = random.Random("c18/%s/%d" % (seed, i))
        spec = {"factors": {"A": basic(["a0", "a1"] if rng.random() < 0.5 else ["a0", "a1", "a2"]),
                            "B": basic(["b0", "b1"]), "C": basic(["c0", "c1"])}, "order": ["A", "B", "C"], "block": None}
        if rng.random() < 0.5:
            gen.add_derived(rng, spec, "W", "within", deps=["A", "B"], else_level=False)
        if rng.random() < 0.4:
            gen.add_derived(rng, spec, "Tr", "transition", deps=["B"], else_level=False)
        names = list(spec["order"])
        nonC = [n_ for n_ in names if n_ != "C"]
        # shared constraint objects
        pool_cons = []
        for k in range(rng.randint(1, 3)):
            f = rng.choice(names)
            c = gen.gen_constraint(rng, spec, [f], 4, types=["AtMostKInARow", "AtMostKInARow", "ExactlyK", "Pin", "AtLeastKInARow",
                                                             "ExactlyKInARow"], boundary=False)
            c["share"] = "s%d" % k
            pool_cons.append(c)

        shared_mt = {"type": "MinimumTrials", "trials": rng.choice([3, 4, 4, 6]), "share": "m0"}
        use_mt = rng.random() < 0.5

        def pick(design, mt=True):
            cs = [copy.deepcopy(c) for c in pool_cons if c["factor"] in design and rng.random() < 0.7]
            if mt and use_mt and rng.random() < 0.5:
                cs.append(copy.deepcopy(shared_mt))   # the same MinimumTrials *object* in several blocks
            return cs
        templates = []
        templates.append(lambda: cross(nonC, ["A"], pick(nonC)))
        templates.append(lambda: cross(names, ["A", "C"], pick(names)))
        templates.append(lambda: cross(names, ["B", "C"] if rng.random() < 0.5 else ["B"], pick(names)))
        templates.append(lambda: {"op": "cross", "design": names, "crossings": [["A"], ["C"]], "cons": pick(names), "rcc": True,
                                  "mode": rng.choice(["weight", "repeat"]), "align": "equal", "ctor": "MultiCrossBlock"})
        templates.append(lambda: {"op": "repeat", "block": cross(nonC, ["A"], pick(nonC)),
                                  "cons": [{"type": "MinimumTrials", "trials": 2 * len(spec["factors"]["A"]["levels"])}]})
        templates.append(lambda: {"op": "merge", "blocks": [cross(names, ["B"], pick(names)), cross(names, ["A"], [])],
                                  "cons": [], "mode": "repeat", "align": None})
        templates.append(lambda: {"op": "nest", "outer": cross(["C"], ["C"], pick(["C"])), "inner": cross(nonC, ["A"], pick(nonC, False)),
                                  "cons": []})
        templates.append(lambda: {"op": "nest", "outer": cross(["C"], ["C"], pick(["C"])), "inner": cross(nonC, ["A"], pick(nonC, False)),
                                  "cons": []})
        k = rng.randint(2, 4)
        trees = [rng.choice(templates)() for _ in range(k)]
        interleave = [rng.random() < 0.5 for _ in range(k)]
        out.append({"cls": "family", "spec": spec, "trees": trees, "interleave": interleave})
    return out


def observe_block(block, user):
    import signal
    import sweetpea as sp
    res = {"T": block.trials_per_sample()}
    r, err, out = O.quiet(sp.synthesize_trials, block, CAP + 1, sp.IterateSATGen)
    res["sat"] = None if (err or r is None or len(r) > CAP) else sorted(O.seq_key(s) for s in r)
    res["sat_err"] = err and (err["exc"], err["func"])

    def on_alarm(signum, frame):
        raise D.SoftTimeout()
    old = signal.signal(signal.SIGVTALRM, on_alarm)
    signal.setitimer(signal.ITIMER_VIRTUAL, 12)
    try:
        r2, err2, out2 = O.quiet(sp.synthesize_trials, block, CAP + 1, sp.RandomGen)
        res["rnd"] = None if (err2 or r2 is None or len(r2) > CAP) else sorted(O.seq_key(s) for s in r2)
        res["rnd_err"] = err2 and (err2["exc"], err2["func"])
    except D.SoftTimeout:
        res["rnd"], res["rnd_err"] = None, ("timeout", None)
    finally:
        signal.setitimer(signal.ITIMER_VIRTUAL, 0)
        signal.signal(signal.SIGVTALRM, old)
    return res


def verdicts(block, cands):
    import sweetpea as sp
    out = []
    for c in cands:
        r, err, _ = O.quiet(sp.sample_mismatch_experiment, block, copy.deepcopy(c))
        out.append("raised:" + err["exc"] if err else ("ok" if not r else "mismatch:" + ",".join(sorted(r))))
    return out


def run_case(case):
    import json
    import sweetpea as sp
    spec = case["spec"]
    trees = case["trees"]
    counters = {"histories": 1}
    viol = []
    # fresh builds
    fresh = []
    for t in trees:
        s = dict(spec, block=t)
        b, pool, e = O.construct(s)
        if e:
            fresh.append({"ctor": (e["exc"], e["func"])})
            continue
        o = observe_block(b, None)
        rng = random.Random(json.dumps(t, sort_keys=True))
        cands = []
        for k in (o["sat"] or [])[:6]:
            c = json.loads(k)
            cands.append(c)
            m = copy.deepcopy(c)
            f = rng.choice(sorted(m))
            lv = S.level_names(spec, f)
            i = rng.randrange(len(m[f]))
            if m[f][i] in lv and len(lv) > 1:
                m[f][i] = rng.choice([x for x in lv if x != m[f][i]])
                cands.append(m)
        o["cands"] = cands
        b2, _, _ = O.construct(s)
        o["verdicts"] = verdicts(b2, cands)
        fresh.append(o)
    # shared history
    pool = B.Pool(spec)
    shared_blocks = []
    for i, t in enumerate(trees):
        r, e, out = O.quiet(pool.block, t, True)
        shared_blocks.append((r, e))
        if case["interleave"][i]:
            prev = [b for b, e2 in shared_blocks if b is not None]
            if prev:
                O.quiet(sp.synthesize_trials, prev[0], 1, sp.IterateSATGen)
    compared = 0
    for i, (t, f) in enumerate(zip(trees, fresh)):
        b, e = shared_blocks[i]
        has_shared = any(c.get("share") for c in S.all_constraints(t))
        if "ctor" in f or e:
            if ("ctor" in f) != (e is not None):
                bad = e or {"exc": f["ctor"][0], "func": f["ctor"][1], "msg": ""}
                viol.append({"kind": "constructor_outcome", "block_index": i, "op": t["op"], "exc": bad["exc"], "func": bad["func"],
                             "shared_refused": e is not None, "has_shared_constraint": has_shared,
                             "msg": "block %d (%s): %s build raises %s in %s, the other constructs"
                                    % (i, t["op"], "shared" if e else "fresh", bad["exc"], bad["func"])})
            continue
        o = observe_block(b, None)
        compared += 1
        if has_shared:
            counters["shared_constraint_blocks"] = counters.get("shared_constraint_blocks", 0) + 1
        first_use = {}
        for j, tt in enumerate(trees[:i + 1]):
            for c in S.all_constraints(tt):
                if c.get("share") and c["share"] not in first_use:
                    first_use[c["share"]] = j
        # only constraints that remember a window geometry (run lengths, ExactlyK, Pin) belong to the known finding
        reused_from_earlier = any(c.get("share") and c["type"] != "MinimumTrials" and first_use[c["share"]] < i
                                  for c in S.all_constraints(t))
        base = {"block_index": i, "op": t["op"], "has_shared_constraint": has_shared,
                "constraint_first_used_in_earlier_block": reused_from_earlier}
        if o["T"] != f["T"]:
            viol.append(dict(base, kind="trial_count", msg="block %d (%s): %d trials when built from shared objects, %d fresh"
                                                           % (i, t["op"], o["T"], f["T"])))
        for key, nm in (("sat", "IterateSATGen"), ("rnd", "RandomGen")):
            if o[key] is None or f[key] is None:
                if (o[key + "_err"] is None) != (f[key + "_err"] is None) and "timeout" not in str(o[key + "_err"]) + str(f[key + "_err"]):
                    viol.append(dict(base, kind="one_side_raises", strategy=nm,
                                     msg="block %d (%s): %s raises %s on the %s build only" % (
                                         i, t["op"], nm, o[key + "_err"] or f[key + "_err"], "shared" if o[key + "_err"] else "fresh")))
                continue
            if o[key] != f[key]:
                so, sf = set(o[key]), set(f[key])
                viol.append(dict(base, kind="sets_differ", strategy=nm, n_shared=len(so), n_fresh=len(sf),
                                 msg="block %d (%s) built after %s: %s returns %d sequences from shared objects, %d from fresh "
                                     "ones; only shared: %s ; only fresh: %s" % (i, t["op"], [x["op"] for x in trees[:i]], nm, len(so), len(sf),
                                                                                 (sorted(so - sf)[:1] or [""])[0][:160], (sorted(sf - so)[:1] or [""])[0][:160])))
        v = verdicts(b, f["cands"])
        counters["mismatch_verdicts_compared"] = counters.get("mismatch_verdicts_compared", 0) + len(v)
        if v != f["verdicts"]:
            k = next(j for j in range(len(v)) if v[j] != f["verdicts"][j])
            viol.append(dict(base, kind="mismatch_verdict", msg="block %d (%s): checker says %s on the shared build, %s on the "
                                                                 "fresh one for %s" % (i, t["op"], v[k], f["verdicts"][k], f["cands"][k])))
    counters["blocks_compared"] = compared
    return {"nontrivial": compared >= 2, "violations": viol[:5], "counters": counters,
            "sample": {"factors": sorted(spec["factors"]), "blocks": [D.small(dict(spec, block=t))["block"] for t in trees],
                       "interleave": case["interleave"], "solutions": [None if "ctor" in f or f["sat"] is None else len(f["sat"]) for f in fresh]}}
