"""C18 — reusing factor and constraint objects across blocks does not change meaning.

Observed: a history of block constructions from ONE pool of factor objects and constraint objects (a constraint dict
with the same "share" key is the same Python object in every block that uses it): 2-4 blocks (CrossBlock with
different crossings/lengths, MultiCrossBlock, Repeat, Merge, Nest) built in a random order, interleaved with
synthesize_trials calls on blocks built earlier; versus every block built alone from fresh objects.
Oracle per block: trials_per_sample(), the exhausted IterateSATGen set, the exhausted RandomGen set and the
mismatch verdicts on a fixed candidate list are identical between the shared-history build and the fresh build.
"""
import copy
import random

from vlib import designs as D, observe as O, build as B, gen, spec as S

ID = "C18"
RULE = ("cases = a family of 2-4 block trees over one factor pool, some constraints shared as objects between "
        "blocks, a construction order and interleaved synthesis calls; non-trivial = at least 2 blocks compared "
        "(fresh vs shared) with exhausted sets; distinct = case contents")
ASSUMPTIONS = ["pycryptosat is a correct SAT solver", "sets compared by level names"]
MINIMUMS = {"quick": {"blocks_compared": 90, "histories": 40, "shared_constraint_blocks": 30, "mismatch_verdicts_compared": 300},
            "thorough": {"blocks_compared": 400, "histories": 170, "shared_constraint_blocks": 130, "mismatch_verdicts_compared": 1300}}
CASE_TIMEOUT = 300
CAP = 300


def basic(levels):
    return {"kind": "basic", "levels": [[l, 1] for l in levels]}


def cross(design, crossing, cons):
    return {"op": "cross", "design": design, "crossings": [crossing], "cons": cons, "rcc": True, "mode": "weight",
            "align": "equal", "ctor": "CrossBlock"}


def cases(tier, seed):
    n = 300 if tier == "thorough" else 55
    out = []
    for i in range(n):
        rng = random.Random("c18/%s/%d" % (seed, i))
        spec = {"factors": {"A": basic(["a0", "a1"] if rng.random() < 0.5 else ["a0", "a1", "a2"]),
                            "B": basic(["b0", "b1"]), "C": basic(["c0", "c1"])}, "order": ["A", "B", "C"], "block": None}
        if rng.random() < 0.5:
            gen.add_derived(rng, spec, "W", "within", deps=["A", "B"], else_level=False)
        if rng.random() < 0.4:
            gen.add_derived(rng, spec, "Tr", "transition", deps=["B"], else_level=False)
            # a satisfiable repeat/switch transition (a random table often leaves a crossing without solutions)
            tr = spec["factors"]["Tr"]
            tr["levels"] = tr["levels"][:2]
            for k in tr["table"]:
                a = __import__("json").loads(k)
                tr["table"][k] = 0 if a[0] == a[1] else 1
        names = list(spec["order"])
        nonC = [n_ for n_ in names if n_ != "C"]
        # shared constraint objects
        pool_cons = []
        for k in range(rng.randint(1, 3)):
            f = rng.choice(names)
            c = gen.gen_constraint(rng, spec, [f], 4, types=["AtMostKInARow", "AtMostKInARow", "ExactlyK", "Pin", "AtLeastKInARow",
                                                             "ExactlyKInARow"], boundary=False)
            c["share"] = "s%d" % k
            pool_cons.append(c)

        shared_mt = {"type": "MinimumTrials", "trials": rng.choice([3, 4, 4, 6]), "share": "m0"}
        use_mt = rng.random() < 0.5

        def pick(design, mt=True):
            cs = [copy.deepcopy(c) for c in pool_cons if c["factor"] in design and rng.random() < 0.7]
            if mt and use_mt and rng.random() < 0.5:
                cs.append(copy.deepcopy(shared_mt))   # the same MinimumTrials *object* in several blocks
            return cs
        templates = []
        templates.append(lambda: cross(nonC, ["A"], pick(nonC)))
        templates.append(lambda: cross(names, ["A", "C"], pick(names)))
        templates.append(lambda: cross(names, ["B", "C"] if rng.random() < 0.5 else ["B"], pick(names)))
        templates.append(lambda: {"op": "cross", "design": names, "crossings": [["A"], ["C"]], "cons": pick(names), "rcc": True,
                                  "mode": rng.choice(["weight", "repeat"]), "align": "equal", "ctor": "MultiCrossBlock"})
        templates.append(lambda: {"op": "repeat", "block": cross(nonC, ["A"], pick(nonC)),
                                  "cons": [{"type": "MinimumTrials", "trials": 2 * len(spec["factors"]["A"]["levels"])}]})
        templates.append(lambda: {"op": "merge", "blocks": [cross(names, ["B"], pick(names)), cross(names, ["A"], [])],
                                  "cons": [], "mode": "repeat", "align": None})
        templates.append(lambda: {"op": "nest", "outer": cross(["C"], ["C"], pick(["C"])), "inner": cross(nonC, ["A"], pick(nonC, False)),
                                  "cons": []})
        templates.append(lambda: {"op": "nest", "outer": cross(["C"], ["C"], pick(["C"])), "inner": cross(nonC, ["A"], pick(nonC, False)),
                                  "cons": []})
        if "Tr" in names:
            # the same windowed factor object in a plain block and, sustained, in the outer block of a Nest
            templates.append(lambda: {"op": "nest", "outer": cross(["B", "Tr"], ["B"], []), "inner": cross(["A", "C"], ["A"], []),
                                      "cons": []})
            templates.append(lambda: cross(["B", "Tr"], ["B"], [c for c in pick(["B", "Tr"]) if c["type"] != "MinimumTrials"]))
            templates.append(lambda: {"op": "nest", "outer": cross(["B", "Tr"], ["B", "Tr"], []), "inner": cross(["A"], ["A"], []),
                                      "cons": [], "align": "post"})
            templates.append(lambda: cross(["B", "Tr"], ["B", "Tr"], []))
            trc = {"type": "ExactlyK", "factor": "Tr", "level": spec["factors"]["Tr"]["levels"][0][0], "k": 1}
            # the windowed factor kept in the encoding by an (unshared) constraint, plain and sustained
            templates.append(lambda: cross(["B", "Tr"], ["B"], [dict(trc, k=rng.choice([1, 2]))]))
            templates.append(lambda: {"op": "nest", "outer": cross(["B", "Tr"], ["B"], [dict(trc)]), "inner": cross(["A"], ["A"], []),
                                      "cons": []})
        k = rng.randint(2, 4)
        trees = [rng.choice(templates)() for _ in range(k)]
        if "Tr" in names and rng.random() < 0.45:
            # the same windowed factor, encoded, in a plain block and (sustained) in a Nest's outer block
            pair = [cross(["B", "Tr"], ["B", "Tr"], []),
                    {"op": "nest", "outer": cross(["B", "Tr"], ["B", "Tr"], []), "inner": cross(["A"], ["A"], []), "cons": [],
                     "align": "post"}]
            rng.shuffle(pair)
            trees[:2] = pair
        interleave = [rng.random() < 0.5 for _ in range(k)]
        out.append({"cls": "family", "spec": spec, "trees": trees, "interleave": interleave})
    return out


def observe_block(block, user):
    import signal
    import sweetpea as sp
    res = {"T": block.trials_per_sample()}
    r, err, out = O.quiet(sp.synthesize_trials, block, CAP + 1, sp.IterateSATGen)
    res["sat"] = None if (err or r is None or len(r) > CAP) else sorted(O.seq_key(s) for s in r)
    res["sat_err"] = err and (err["exc"], err["func"])

    def on_alarm(signum, frame):
        raise D.SoftTimeout()
    old = signal.signal(signal.SIGVTALRM, on_alarm)
    signal.setitimer(signal.ITIMER_VIRTUAL, 6)
    try:
        r2, err2, out2 = O.quiet(sp.synthesize_trials, block, CAP + 1, sp.RandomGen)
        res["rnd"] = None if (err2 or r2 is None or len(r2) > CAP) else sorted(O.seq_key(s) for s in r2)
        res["rnd_err"] = err2 and (err2["exc"], err2["func"])
    except D.SoftTimeout:
        res["rnd"], res["rnd_err"] = None, ("timeout", None)
    finally:
        signal.setitimer(signal.ITIMER_VIRTUAL, 0)
        signal.signal(signal.SIGVTALRM, old)
    return res


def verdicts(block, cands):
    import sweetpea as sp
    out = []
    for c in cands:
        r, err, _ = O.quiet(sp.sample_mismatch_experiment, block, copy.deepcopy(c))
        out.append("raised:" + err["exc"] if err else ("ok" if not r else "mismatch:" + ",".join(sorted(r))))
    return out


def run_case(case):
    import json
    import sweetpea as sp
    spec = case["spec"]
    trees = case["trees"]
    counters = {"histories": 1}
    viol = []
    # fresh builds: each block alone, from fresh objects, in its own forked child, so that nothing a previous
    # construction left behind in the process (module- or class-level state) can reach it
    def fresh_one(t):
        s = dict(spec, block=t)
        b, pool, e = O.construct(s)
        if e:
            return {"ctor": [e["exc"], e["func"]]}
        o = observe_block(b, None)
        rng = random.Random(json.dumps(t, sort_keys=True))
        cands = []
        for k in (o["sat"] or [])[:6]:
            c = json.loads(k)
            cands.append(c)
            m = copy.deepcopy(c)
            f = rng.choice(sorted(m))
            lv = S.level_names(spec, f)
            i = rng.randrange(len(m[f]))
            if m[f][i] in lv and len(lv) > 1:
                m[f][i] = rng.choice([x for x in lv if x != m[f][i]])
                cands.append(m)
        o["cands"] = cands
        b2, _, _ = O.construct(s)
        o["verdicts"] = verdicts(b2, cands)
        return o
    fresh = []
    for t in trees:
        val, st = O.guarded(fresh_one, 150, t)
        if st != "ok" or not isinstance(val, dict) or "_raised" in val:
            return {"nontrivial": False, "violations": [], "counters": {"fresh_build_" + st: 1},
                    "inconclusive": None}
        for k in ("sat_err", "rnd_err"):
            if val.get(k) is not None:
                val[k] = tuple(val[k])
        if "ctor" in val:
            val["ctor"] = tuple(val["ctor"])
        fresh.append(val)
    # shared history
    pool = B.Pool(spec)
    shared_blocks = []
    for i, t in enumerate(trees):
        r, e, out = O.quiet(pool.block, t, True)
        shared_blocks.append((r, e))
        if case["interleave"][i]:
            prev = [b for b, e2 in shared_blocks if b is not None]
            if prev:
                O.quiet(sp.synthesize_trials, prev[0], 1, sp.IterateSATGen)
    compared = 0
    for i, (t, f) in enumerate(zip(trees, fresh)):
        b, e = shared_blocks[i]
        has_shared = any(c.get("share") for c in S.all_constraints(t))
        if "ctor" in f or e:
            if ("ctor" in f) != (e is not None):
                bad = e or {"exc": f["ctor"][0], "func": f["ctor"][1], "msg": ""}
                viol.append({"kind": "constructor_outcome", "block_index": i, "op": t["op"], "exc": bad["exc"], "func": bad["func"],
                             "shared_refused": e is not None, "has_shared_constraint": has_shared,
                             "msg": "block %d (%s): %s build raises %s in %s, the other constructs"
                                    % (i, t["op"], "shared" if e else "fresh", bad["exc"], bad["func"])})
            continue
        o = observe_block(b, None)
        compared += 1
        if has_shared:
            counters["shared_constraint_blocks"] = counters.get("shared_constraint_blocks", 0) + 1
        first_use = {}
        for j, tt in enumerate(trees[:i + 1]):
            for c in S.all_constraints(tt):
                if c.get("share") and c["share"] not in first_use:
                    first_use[c["share"]] = j
        # only constraints that remember a window geometry (run lengths, ExactlyK, Pin) belong to the known finding
        reused_from_earlier = any(c.get("share") and c["type"] != "MinimumTrials" and first_use[c["share"]] < i
                                  for c in S.all_constraints(t))
        base = {"block_index": i, "op": t["op"], "has_shared_constraint": has_shared,
                "constraint_first_used_in_earlier_block": reused_from_earlier}
        if o["T"] != f["T"]:
            viol.append(dict(base, kind="trial_count", msg="block %d (%s): %d trials when built from shared objects, %d fresh"
                                                           % (i, t["op"], o["T"], f["T"])))
        for key, nm in (("sat", "IterateSATGen"), ("rnd", "RandomGen")):
            if o[key] is None or f[key] is None:
                if (o[key + "_err"] is None) != (f[key + "_err"] is None) and "timeout" not in str(o[key + "_err"]) + str(f[key + "_err"]):
                    viol.append(dict(base, kind="one_side_raises", strategy=nm,
                                     msg="block %d (%s): %s raises %s on the %s build only" % (
                                         i, t["op"], nm, o[key + "_err"] or f[key + "_err"], "shared" if o[key + "_err"] else "fresh")))
                continue
            if o[key] != f[key]:
                so, sf = set(o[key]), set(f[key])
                viol.append(dict(base, kind="sets_differ", strategy=nm, n_shared=len(so), n_fresh=len(sf),
                                 msg="block %d (%s) built after %s: %s returns %d sequences from shared objects, %d from fresh "
                                     "ones; only shared: %s ; only fresh: %s" % (i, t["op"], [x["op"] for x in trees[:i]], nm, len(so), len(sf),
                                                                                 (sorted(so - sf)[:1] or [""])[0][:160], (sorted(sf - so)[:1] or [""])[0][:160])))
        v = verdicts(b, f["cands"])
        counters["mismatch_verdicts_compared"] = counters.get("mismatch_verdicts_compared", 0) + len(v)
        if v != f["verdicts"]:
            k = next(j for j in range(len(v)) if v[j] != f["verdicts"][j])
            viol.append(dict(base, kind="mismatch_verdict", msg="block %d (%s): checker says %s on the shared build, %s on the "
                                                                 "fresh one for %s" % (i, t["op"], v[k], f["verdicts"][k], f["cands"][k])))
    counters["blocks_compared"] = compared
    return {"nontrivial": compared >= 2, "violations": viol[:5], "counters": counters,
            "sample": {"factors": sorted(spec["factors"]), "blocks": [D.small(dict(spec, block=t))["block"] for t in trees],
                       "interleave": case["interleave"], "solutions": [None if "ctor" in f or f["sat"] is None else len(f["sat"]) for f in fresh]}}
