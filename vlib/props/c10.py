"""C10 — cardinality constraints are encoded exactly (exhaustive within the bound).

Observed: the CNF produced by the real `combine_cnf_with_requests` (the path every SAT sampler uses) and by the
three `CNF.assert_*` methods directly. Oracle: for each of the 2^n assignments of the listed variables,
SAT-under-assumptions <=> the arithmetic relation, and the auxiliary extension is unique.
"""
import itertools
import random

ID = "C10"
LEVEL = "exploration"
RULE = ("cases = (relation EQ/LT/GT, n, k, entry point, variable-numbering variant, optional second request sharing "
        "the CNF); every case checks all 2^n assignments of the n listed variables. non-trivial = n >= 1 and the "
        "encoder returned; distinct = distinct parameter tuples. k ranges over 0..n+3 and 2^j-1, 2^j, 2^j+1")
ASSUMPTIONS = ["pycryptosat answers SAT/UNSAT correctly",
               "EQ: count == k; LT: count < k; GT: count > k (core/generate/utility.py AssertionType docs)"]
EXHAUSTIVE = {"quick": True, "thorough": True}
MINIMUMS = {"quick": {"assignments_checked": 15000, "distinct_nontrivial": 300},
            "thorough": {"assignments_checked": 800000, "distinct_nontrivial": 1100}}
CASE_TIMEOUT = 600


def _ks(n):
    ks = set(range(0, n + 4))
    for j in range(0, 5):
        for d in (-1, 0, 1):
            v = 2 ** j + d
            if 0 <= v <= 2 * n + 6:
                ks.add(v)
    return sorted(ks)


def cases(tier, seed):
    nmax = 13 if tier == "thorough" else 7
    out = []
    for n in range(1, nmax + 1):
        for k in _ks(n):
            for rel in ("EQ", "LT", "GT"):
                out.append({"rel": rel, "n": n, "k": k, "entry": "combine", "variant": "contiguous"})
                if n <= (10 if tier == "thorough" else 6):
                    out.append({"rel": rel, "n": n, "k": k, "entry": "combine", "variant": "scattered"})
                    out.append({"rel": rel, "n": n, "k": k, "entry": "method", "variant": "scattered"})
    rng = random.Random(seed)
    # pairs of requests sharing one CNF (fresh-variable bookkeeping between requests)
    for _ in range(150 if tier == "thorough" else 40):
        n = rng.randint(2, 6)
        out.append({"rel": rng.choice(["EQ", "LT", "GT"]), "n": n, "k": rng.randint(0, n + 2), "entry": "combine",
                    "variant": "scattered",
                    "second": {"rel": rng.choice(["EQ", "LT", "GT"]), "k": rng.randint(0, n + 2),
                               "m": rng.randint(1, n)}})
    for c in out:
        c["seed"] = seed
        c["cls"] = c["rel"] + ("/k>n" if c["k"] > c["n"] else "/k<=n")
    return out


def holds(rel, cnt, k):
    return {"EQ": cnt == k, "LT": cnt < k, "GT": cnt > k}[rel]


def run_case(case):
    from sweetpea._internal.core.cnf import CNF, Var
    from sweetpea._internal.core.generate.utility import (combine_cnf_with_requests, GenerationRequest,
                                                          AssertionType)
    from vlib.satx import Sat, clauses_of
    rng = random.Random(repr(sorted((k, str(v)) for k, v in case.items())))
    n, k, rel = case["n"], case["k"], case["rel"]
    if case["variant"] == "contiguous":
        base = n
        vs = list(range(1, n + 1))
    else:
        base = n + rng.randint(0, 4)
        vs = rng.sample(range(1, base + 1), n)
    reqs = [(rel, k, vs)]
    if case.get("second"):
        s2 = case["second"]
        reqs.append((s2["rel"], s2["k"], rng.sample(vs, s2["m"])))
    if case["entry"] == "combine":
        grs = [GenerationRequest(AssertionType[r], kk, [Var(v) for v in vv]) for r, kk, vv in reqs]
        cnf = combine_cnf_with_requests(CNF(), base, base, grs)
    else:
        cnf = CNF.from_fresh(base)
        for r, kk, vv in reqs:
            getattr(cnf, {"EQ": "assert_k_of_n", "LT": "assert_k_less_than_n",
                          "GT": "assert_k_greater_than_n"}[r])(kk, [Var(v) for v in vv])
    clauses = clauses_of(cnf)
    used = {abs(l) for c in clauses for l in c}
    aux = sorted(v for v in used if v > base)
    low_aux = sorted(v for v in used if v <= base and v not in vs)
    viol = []
    if low_aux:
        viol.append({"kind": "aux_below_fresh_base", "rel": rel,
                     "msg": "clauses mention variables %s <= declared base %d that are not inputs" % (low_aux, base)})
    nv = max(list(used) + [base, cnf._num_vars])
    sat = Sat(clauses, nv)
    act = nv
    checked = 0
    for bits in itertools.product([0, 1], repeat=n):
        a = dict(zip(vs, bits))
        assum = [v if b else -v for v, b in a.items()]
        want = all(holds(r, sum(a[v] for v in vv), kk) for r, kk, vv in reqs)
        m = sat.solve(assum)
        checked += 1
        if (m is not None) != want:
            viol.append({"kind": "wrong_relation", "rel": rel, "k_gt_n": k > n,
                         "msg": "%s k=%d n=%d vars=%s%s: assignment %s (count %d) is %s but should be %s"
                                % (rel, k, n, vs, " +second %s" % (reqs[1][:2],) if len(reqs) > 1 else "", bits,
                                   sum(bits), "SAT" if m is not None else "UNSAT", "SAT" if want else "UNSAT")})
            if len(viol) > 4:
                break
            continue
        if m is not None and aux:
            act += 1
            sat.add([-act] + [(-v if m[v] else v) for v in aux])
            m2 = sat.solve(assum + [act])
            if m2 is not None:
                viol.append({"kind": "not_unique", "rel": rel, "k_gt_n": k > n,
                             "msg": "%s k=%d n=%d: assignment %s has two auxiliary extensions (differ on %s)"
                                    % (rel, k, n, bits, [v for v in aux if m[v] != m2[v]][:6])})
                if len(viol) > 4:
                    break
            sat.add([-act])
    params = {kk: v for kk, v in case.items() if kk not in ("seed", "cls")}
    return {"nontrivial": checked >= 2, "dkey": repr(sorted((a, str(b)) for a, b in params.items())),
            "violations": viol[:5],
            "counters": {"assignments_checked": checked, "clauses_seen": len(clauses), "aux_vars_seen": len(aux),
                         "cases_k_gt_n": int(k > n)},
            "sample": {"case": params, "vars": vs, "base": base, "clauses": len(clauses), "aux": len(aux),
                       "assignments_checked": checked}}
