"""C21 — tabulation counts are exact.

Observed: captured stdout of tabulate_experiments(block | factors=..., experiments, trials), parsed row by row.
Oracle: an independent counter — for each experiment and each combination of levels of the selected factors (in
product order), the number of selected trial indices (with multiplicity) whose trial has that combination, and
100 * frequency / len(trials) as the percentage; one table per experiment, every combination exactly once.
"""
import itertools
import random

from vlib import designs as D, observe as O

ID = "C21"
RULE = ("cases = 1-3 factors with 2-4 levels each (names from [a-z0-9_], never containing '|' or blanks), 1-4 "
        "experiments of 1-9 trials that are either arbitrary or drawn so that many combinations repeat, factor "
        "selection = whole crossing via block, or a subset / permutation via factors=, trial selection = None, a "
        "subset, or a list with repeated indices; class blank_names: LEVEL names with leading / trailing / inner blanks, "
        "upper case, numeric-looking (factor names stay blank-free). non-trivial = >= 2 rows and >= 2 selected trials; distinct = case")
ASSUMPTIONS = ["rows are parsed by splitting at ' | ' and each cell at its first blank (factor names contain neither; level names never contain ' | ' and are compared blank-stripped)"]
MINIMUMS = {"quick": {"tables_parsed": 600, "rows_compared": 6000, "cases_with_trial_selection": 120,
                      "cases_with_factor_subset": 120},
            "thorough": {"tables_parsed": 9000, "rows_compared": 90000, "cases_with_trial_selection": 1800,
                         "cases_with_factor_subset": 1800}}
CASE_TIMEOUT = 60


def cases(tier, seed):
    n = 5000 if tier == "thorough" else 340
    out = []
    for i in range(n):
        rng = random.Random("c21/%s/%d" % (seed, i))
        nf = rng.randint(1, 3)
        facs = [["f%d_%s" % (j, rng.choice(["x", "yy", "z9"])), ["l%d%s" % (k, rng.choice(["", "_a", "b"]))
                                                               for k in range(rng.randint(2, 4))]] for j in range(nf)]
        T = rng.randint(1, 9)
        ne = rng.randint(1, 4)
        exps = []
        for _ in range(ne):
            e = {}
            for fn, lv in facs:
                pool = lv if rng.random() < 0.6 else lv[:2]
                e[fn] = [rng.choice(pool) for _ in range(T)]
            exps.append(e)
        mode = rng.choice(["block", "factors", "factors", "subset", "permuted"])
        sel = list(range(nf))
        if mode == "subset":
            sel = sorted(rng.sample(range(nf), rng.randint(1, nf)))
        elif mode == "permuted":
            rng.shuffle(sel)
        tmode = rng.choice(["none", "none", "subset", "repeated", "single"])
        if tmode == "none":
            trials = None
        elif tmode == "subset":
            trials = sorted(rng.sample(range(T), rng.randint(1, T)))
        elif tmode == "single":
            trials = [rng.randrange(T)]
        else:
            trials = [rng.randrange(T) for _ in range(rng.randint(1, T + 2))]
        out.append({"cls": mode + "/" + tmode, "factors": facs, "experiments": exps, "mode": mode, "sel": sel,
                    "trials": trials})
    # appended (round 4): level names as they come out of files - leading / trailing blanks, inner blanks, mixed case,
    # numeric-looking strings; the experiments carry exactly the declared names
    for i in range(n // 5):
        rng = random.Random("c21ws/%s/%d" % (seed, i))
        nf = rng.randint(1, 3)
        deco = [lambda x: x + " ", lambda x: " " + x, lambda x: x, lambda x: x.upper(), lambda x: x + "  ", lambda x: x[:1] + " " + x[1:]]
        facs = [["f%d" % j, [rng.choice(deco)(b) for b in rng.sample(["lo", "hi", "mid", "07", "1.0", "none"], rng.randint(2, 3))]]
                for j in range(nf)]
        T = rng.randint(2, 9)
        exps = [{fn: [rng.choice(lv) for _ in range(T)] for fn, lv in facs} for _ in range(rng.randint(1, 3))]
        mode = rng.choice(["block", "factors"])
        out.append({"cls": "blank_names/" + mode, "factors": facs, "experiments": exps, "mode": mode,
                    "sel": list(range(nf)), "trials": None, "blank_names": True})
    return out


def run_case(case):
    import sweetpea as sp
    facs = [sp.Factor(fn, list(lv)) for fn, lv in case["factors"]]
    sel = [facs[i] for i in case["sel"]]
    selspec = [case["factors"][i] for i in case["sel"]]
    exps = case["experiments"]
    trials = case["trials"]
    counters = {}
    if case["mode"] == "block":
        block = sp.CrossBlock(facs, facs, [])
        sel, selspec = facs, case["factors"]
        fn = lambda: sp.tabulate_experiments(block, exps, None, None if trials is None else list(trials))
    else:
        fn = lambda: sp.tabulate_experiments(None, exps, sel, None if trials is None else list(trials))
    _, err, out = O.quiet(fn)
    viol = []
    if err:
        viol.append(D.exc_violation(err, "tabulate_experiments", kind="tabulate_exception"))
        return {"nontrivial": False, "violations": viol, "counters": counters}
    # parse
    tables = []
    cur = None
    for line in out.split("\n"):
        if line.startswith("Experiment ") and line.rstrip().endswith(":"):
            cur = []
            tables.append((line.strip(), cur))
        elif line.strip() and cur is not None:
            cur.append(line)
    rows_cmp = 0
    if len(tables) != len(exps):
        viol.append({"kind": "table_count", "msg": "%d experiments, %d tables printed" % (len(exps), len(tables))})
    names = [fn_ for fn_, _ in selspec]
    for ei, (e, (title, rows)) in enumerate(zip(exps, tables)):
        if title != "Experiment %d:" % ei:
            viol.append({"kind": "title", "msg": "table %d is titled %r" % (ei, title)})
        T = len(e[names[0]])
        tr = list(range(T)) if trials is None else trials
        combos = list(itertools.product(*[lv for _, lv in selspec]))
        if len(rows) != len(combos):
            viol.append({"kind": "row_count", "msg": "experiment %d: %d rows for %d level combinations" % (ei, len(rows), len(combos))})
            continue
        for combo, row in zip(combos, rows):
            cells = [c.strip() for c in row.split(" | ")]
            rows_cmp += 1
            try:
                got = [c.split(" ", 1) for c in cells]
                gnames = [g[0] for g in got]
                gvals = [g[1] for g in got]
                freq = int(gvals[len(names)])
                prop = gvals[len(names) + 1]
                assert prop.endswith("%")
                pct = float(prop[:-1])
            except Exception as ex:  # noqa
                viol.append({"kind": "unparsable_row", "msg": "row %r (%s)" % (row, ex)})
                break
            wantf = sum(1 for t in tr if all(e[n][t] == c for n, c in zip(names, combo)))
            wantp = 100.0 * wantf / len(tr)
            # (cells are read back blank-stripped, so the printed level names are compared blank-stripped too)
            if gnames != names + ["frequency", "proportion"] or [g.strip() for g in gvals[:len(names)]] != [str(c).strip() for c in combo]:
                viol.append({"kind": "wrong_combination", "msg": "row %r, expected combination %r of %r" % (row, combo, names)})
                break
            if freq != wantf or abs(pct - wantp) > 1e-9:
                viol.append({"kind": "wrong_count", "msg": "experiment %d combination %r: printed frequency %d / %s, "
                                                           "counted %d / %.6f%% over trials %r" % (ei, combo, freq, prop, wantf, wantp, tr)})
                break
    counters["tables_parsed"] = len(tables)
    counters["rows_compared"] = rows_cmp
    if trials is not None:
        counters["cases_with_trial_selection"] = 1
    if case["mode"] in ("subset", "permuted"):
        counters["cases_with_factor_subset"] = 1
    T0 = len(exps[0][names[0]])
    return {"nontrivial": rows_cmp >= 2 and (len(trials) if trials is not None else T0) >= 2,
            "violations": viol[:4], "counters": counters,
            "sample": {"factors": case["factors"], "selected": names, "trials": trials, "experiment": exps[0],
                       "printed": out[:400]}}
