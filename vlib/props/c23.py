"""C23 — weighted levels behave as documented.

Observed: exhausted IterateSATGen (and RandomGen) solution multisets of a weighted design and of its copy-expanded
twin: every level of weight w of a basic factor is replaced by w separately named copies x#1..x#w of weight 1,
derived-level truth tables are rewritten so that every copy behaves like x, constraints never name a weighted
level directly (they may name derived levels that read it).
Oracle: map the twin's sequences back (x#i -> x). For a crossed factor the copies are not distinct solutions: twin
sequences that differ only in which copy of a crossed level was used collapse into one. For a basic factor outside
the crossing the copies stay distinct. The resulting multiset of printed sequences must equal the weighted design's
multiset, and the two trial counts must agree.
"""
import collections
import copy
import itertools
import json
import random

from vlib import designs as D, observe as O, gen, spec as S

ID = "C23"
RULE = ("cases = generated flat designs with weighted basic levels (crossed, uncrossed or both), optional derived "
        "factors over them (within/transition) and constraints on unweighted or derived levels, paired with the "
        "copy-expanded twin; non-trivial = both exhausted (<= CAP twin sequences) and compared, weighted design has "
        ">= 2 sequences; appended: weighted derived level crossed over a weighted uncrossed factor, several crossings "
        "with a weighted factor in only some of them, Nest; distinct = spec hashes")
ASSUMPTIONS = ["pycryptosat is a correct SAT solver", "copy semantics as in the Level documentation"]
MINIMUMS = {"quick": {"pairs_compared": 100, "with_crossed_weight": 35, "with_uncrossed_weight": 25, "with_derived_over_weighted": 20,
                      "appended_wd": 10, "appended_mc": 8, "appended_nest": 2},
            "thorough": {"pairs_compared": 350, "with_crossed_weight": 122, "with_uncrossed_weight": 87, "with_derived_over_weighted": 70,
                         "appended_wd": 35, "appended_mc": 20, "appended_nest": 3}}
CASE_TIMEOUT = 240
CAP = 900


def expand(spec):
    tw = copy.deepcopy(spec)
    copies = {}
    for n, f in tw["factors"].items():
        if f["kind"] != "basic":
            continue
        new = []
        for l, w in f["levels"]:
            if w > 1:
                cs = ["%s#%d" % (l, i + 1) for i in range(w)]
                copies[(n, l)] = cs
                new += [[c, 1] for c in cs]
            else:
                new.append([l, 1])
        f["levels"] = new
    for n, f in tw["factors"].items():
        if f["kind"] != "derived":
            continue
        width = f["win"][1]
        deps = f["deps"]
        nt = {}
        for key, val in f["table"].items():
            tup = json.loads(key)
            opts = []
            for i, a in enumerate(tup):
                d = deps[i // width]
                opts.append(copies.get((d, a), [a]))
            for combo in itertools.product(*opts):
                nt[S.akey(combo)] = val
        f["table"] = nt
    return tw, copies


def cases(tier, seed):
    n = 1100 if tier == "thorough" else 230
    out = []
    for i in range(n):
        rng = random.Random("c23/%s/%d" % (seed, i))
        sp = gen.gen_flat(rng, "K2", max_size=6)
        F = sp["factors"]
        b = sp["block"]
        # keep the expanded twin enumerable: weights <= 2 except one level, at most 2 weighted factors
        wf = 0
        for n_, f in F.items():
            if f["kind"] == "basic":
                if wf >= 2:
                    f["levels"] = [[l, 1] for l, _ in f["levels"]]
                elif any(w > 1 for _, w in f["levels"]):
                    wf += 1
                    f["levels"] = [[l, min(w, 2)] for l, w in f["levels"]]
            else:
                f["levels"] = [[l, 1] for l, _ in f["levels"]]
        if wf == 0:
            f = F["F0"]
            f["levels"][0][1] = 2
        weighted = {(n_, l) for n_, f in F.items() if f["kind"] == "basic" for l, w in f["levels"] if w > 1}
        wfactors = {n_ for n_, _ in weighted}
        cons = []
        for c in b["cons"]:
            if c["type"] == "MinimumTrials":
                continue
            if c.get("factor") in wfactors and (c.get("level") is None or (c["factor"], c["level"]) in weighted):
                continue
            if c["type"] == "Sequential":
                continue
            cons.append(c)
        if rng.random() < 0.4:
            others = [n_ for n_ in b["design"] if n_ not in wfactors]
            if others:
                cons.append(gen.gen_constraint(rng, sp, others, 4, types=["AtMostKInARow", "ExactlyK", "Pin"], boundary=False))
        b["cons"] = cons
        out.append({"cls": "K2", "spec": sp})
    # appended: (wd) a weighted DERIVED level in the crossing, computed from a weighted basic factor outside the
    # crossing; (mc) several crossings with a weighted basic factor in only some of them; (nest) weighted factors
    # in the outer / inner block of a Nest. "Not in every crossing" is the documented condition for copies.
    for i in range(330 if tier == "thorough" else 66):
        rng = random.Random("c23x/%s/%d" % (seed, i))
        kind = ["wd", "mc", "nest"][i % 3]
        sp = {"factors": {}, "order": [], "block": None}
        F = sp["factors"]

        def basic(name, i_, nl, weighted):
            F[name] = gen._basic(rng, i_, False, nl=nl)
            if weighted:
                rng.choice(F[name]["levels"])[1] = 2
            sp["order"].append(name)

        def cross(design, crossings, cons, ctor="CrossBlock", mode="weight"):
            return {"op": "cross", "design": design, "crossings": crossings, "cons": cons, "rcc": True, "mode": mode,
                    "align": "equal", "ctor": ctor}
        if kind == "wd":
            basic("A", 0, rng.choice([2, 3]), True)
            basic("B", 1, 2, rng.random() < 0.3)
            f = gen.add_derived(rng, sp, "W", "within", deps=rng.choice([["A"], ["A", "B"]]), else_level=False)
            ks = sorted(f["table"])
            for j in range(len(f["levels"])):
                f["table"][ks[(j * len(ks)) // len(f["levels"])]] = j     # every level producible
            rng.choice(f["levels"])[1] = 2
            crossing = rng.choice([["W"], ["W"], ["B", "W"]])
            if "B" in crossing:
                for l in F["B"]["levels"]:
                    l[1] = 1
            design = ["A", "B", "W"]
            if rng.random() < 0.4:
                rng.shuffle(design)
            sp["block"] = cross(design, [crossing], [])
        elif kind == "mc":
            basic("A", 0, rng.choice([2, 2, 3]), True)
            basic("B", 1, 2, rng.random() < 0.3)
            third = rng.random() < 0.4
            if third:
                basic("C", 2, 2, False)
            crossings = rng.choice([[["A"], ["B"]], [["B"], ["A"]]] + ([[["A", "C"], ["B"]], [["A"], ["B", "C"]], [["A"], ["B"], ["C"]]] if third else []))
            sp["block"] = cross(list(sp["order"]), crossings, [], ctor="MultiCrossBlock", mode=rng.choice(["weight", "repeat"]))
        else:
            basic("A", 0, 2, rng.random() < 0.8)
            basic("B", 1, 2, rng.random() < 0.25)
            if all(w == 1 for f_ in F.values() for _, w in f_["levels"]):
                F["A"]["levels"][0][1] = 2
            sp["block"] = {"op": "nest", "outer": cross(["A"], [["A"]], []), "inner": cross(["B"], [["B"]], []), "cons": []}
        out.append({"cls": "x-" + kind, "spec": sp})
    return out


def unmap(name):
    return name.split("#")[0] if isinstance(name, str) else name


def run_case(case):
    spec = case["spec"]
    twin, copies = expand(spec)
    counters = {}
    b1, _, e1 = O.construct(spec)
    b2, _, e2 = O.construct(twin)
    if e1 or e2:
        viol = []
        if (e1 is None) != (e2 is None):
            bad = e1 or e2
            viol.append({"kind": "constructor_outcome", "exc": bad["exc"], "func": bad["func"], "side": "weighted" if e1 else "twin",
                         "msg": "the %s design is refused (%s in %s: %s), the other constructs"
                                % ("weighted" if e1 else "copy-expanded", bad["exc"], bad["func"], bad["msg"][:120])})
        return {"nontrivial": False, "violations": viol, "counters": {"rejected_by_constructor": 1}}
    crossings = [c for b in S.walk_blocks(spec["block"]) if b["op"] == "cross" for c in b["crossings"] if c]
    wfactors = {n for (n, l) in copies}
    # copies of a level are one solution only if the factor is in EVERY crossing (Level documentation)
    crossed_w = [n for n in wfactors if crossings and all(n in c for c in crossings)]
    uncrossed_w = [n for n in wfactors if n not in crossed_w]
    viol = []
    T1, T2 = b1.trials_per_sample(), b2.trials_per_sample()
    if T1 != T2:
        viol.append({"kind": "trial_count", "msg": "weighted design has %d trials, its copy-expanded twin %d" % (T1, T2)})
    compared = False
    for strat in ("IterateSATGen", "RandomGen"):
        t, et, st = D.exhaust(twin, strat, CAP, 60 if strat == "IterateSATGen" else 15)
        if et or st != "ok":
            counters["%s_twin_%s" % (strat.lower(), "raised" if et else st)] = 1
            continue
        w, ew, sw = D.exhaust(spec, strat, CAP, 60 if strat == "IterateSATGen" else 15)
        if ew or sw != "ok":
            counters["%s_weighted_%s" % (strat.lower(), "raised" if ew else sw)] = 1
            if ew:
                viol.append(D.exc_violation(ew, strat, kind="weighted_raises_twin_works"))
            continue
        seen = set()
        want = collections.Counter()
        for s in t:
            mapped = {k: [unmap(v) for v in col] for k, col in s.items()}
            sig = (O.seq_key(mapped), tuple(tuple(s[n]) for n in uncrossed_w))
            if sig in seen:
                continue
            seen.add(sig)
            want[O.seq_key(mapped)] += 1
        got = collections.Counter(O.seq_key(s) for s in w)
        compared = True
        if got != want:
            extra = [k for k in got if k not in want]
            missing = [k for k in want if k not in got]
            multi = [(k, got[k], want[k]) for k in got if k in want and got[k] != want[k]]
            viol.append({"kind": "weighted_vs_copies", "strategy": strat, "n_extra": len(extra), "n_missing": len(missing),
                         "n_multiplicity": len(multi), "crossed_weighted": crossed_w, "uncrossed_weighted": uncrossed_w,
                         "msg": "%s: weighted design returns %d sequences (%d distinct prints), the copy-expanded twin maps "
                                "back to %d (%d distinct); only weighted: %s ; only twin: %s ; multiplicity (got, want): %s"
                                % (strat, sum(got.values()), len(got), sum(want.values()), len(want), (extra[:1] or [""])[0][:200],
                                   (missing[:1] or [""])[0][:200], [(g, x) for _, g, x in multi[:2]])})
    if compared:
        counters["pairs_compared"] = 1
        if crossed_w:
            counters["with_crossed_weight"] = 1
        if uncrossed_w:
            counters["with_uncrossed_weight"] = 1
        if any(f["kind"] == "derived" and set(f["deps"]) & wfactors for f in spec["factors"].values()):
            counters["with_derived_over_weighted"] = 1
        if case.get("cls", "").startswith("x-"):
            counters["appended_" + case["cls"][2:]] = 1
    n_w = None
    return {"nontrivial": compared, "violations": viol[:4], "counters": counters,
            "sample": {"spec": D.small(spec), "twin_levels": {n: twin["factors"][n]["levels"] for n in wfactors},
                       "T": T1}}
