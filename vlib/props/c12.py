"""C12 — adder and population-count circuits compute sums (exhaustive within the bound).

Observed: the clause sets that the real CNF methods append to real CNF objects. Oracle: for every
assignment of the inputs, exactly one extension exists and the output bits read as the arithmetic sum
(with the saturation contract of the top bit).
"""
import itertools
import random

ID = "C12"
LEVEL = "exploration"
RULE = ("cases = (circuit kind, widths / input count, saturate_at, variable-numbering variant); each case checks "
        "ALL input assignments with a SAT oracle (SAT under assumptions, uniqueness via activation-literal blocking "
        "clause, outputs == arithmetic sum). non-trivial = circuit built and >= 2 input assignments checked; "
        "distinct = distinct (kind, parameters, numbering) tuples")
ASSUMPTIONS = ["pycryptosat answers SAT/UNSAT correctly",
               "saturation contract: value exact below 2^(s-1), top bit set otherwise (what assert_k_of_n relies on)"]
EXHAUSTIVE = {"quick": True, "thorough": True}
MINIMUMS = {"quick": {"assignments_checked": 5000, "distinct_nontrivial": 100},
            "thorough": {"assignments_checked": 100000, "distinct_nontrivial": 240}}
CASE_TIMEOUT = 300


def cases(tier, seed):
    big = tier == "thorough"
    out = []
    for variant in ("fresh", "scattered"):
        out.append({"kind": "half_adder", "variant": variant})
        for cin in (True, False):
            out.append({"kind": "full_adder", "cin": cin, "variant": variant})
            out.append({"kind": "saturate_adder", "cin": cin, "variant": variant})
        for w in range(1, (8 if big else 6)):
            out.append({"kind": "ripple_carry", "w": w, "variant": variant})
        for s in range(1, (7 if big else 5)):
            for w in range(1, s + 1):
                out.append({"kind": "ripple_saturate", "w": w, "s": s, "variant": variant})
        for n in range(1, (13 if big else 10)):
            for s in range(0, (7 if big else 6)):
                out.append({"kind": "pop_count", "n": n, "s": s, "variant": variant})
        # two circuits sharing one CNF object (fresh-variable bookkeeping across calls)
        for n in range(2, (8 if big else 6)):
            out.append({"kind": "pop_count_twice", "n": n, "s": 0, "variant": variant})
            out.append({"kind": "pop_count_twice", "n": n, "s": 3, "variant": variant})
    for c in out:
        c["seed"] = seed
        c["cls"] = c["kind"]
    return out


def _inputs(cnf_cls, Var, n, variant, rng):
    """Returns (cnf, input Vars). 'scattered' = inputs are a shuffled subset of a larger pre-allocated range."""
    if variant == "fresh":
        cnf = cnf_cls()
        return cnf, cnf.get_n_fresh(n)
    base = n + rng.randint(1, 5)
    cnf = cnf_cls.from_fresh(base)
    vs = rng.sample(range(1, base + 1), n)
    return cnf, [Var(v) for v in vs]


def _val(model, bits_msb_first):
    v = 0
    for b in bits_msb_first:
        v = v * 2 + (1 if model[int(b)] else 0)
    return v


def run_case(case):
    from sweetpea._internal.core.cnf import CNF, Var
    from vlib.satx import Sat, clauses_of
    rng = random.Random("%s/%s" % (case["seed"], sorted(case.items())))
    kind = case["kind"]
    viol = []
    checks = []  # list of (name, fn(model, inputbits)->(ok, detail))
    if kind == "half_adder":
        cnf, ins = _inputs(CNF, Var, 2, case["variant"], rng)
        c, s = cnf.half_adder(ins[0], ins[1])
        checks.append(("half", lambda m, b: (_val(m, [c, s]) == sum(b), (_val(m, [c, s]), sum(b)))))
    elif kind == "full_adder":
        n = 3 if case["cin"] else 2
        cnf, ins = _inputs(CNF, Var, n, case["variant"], rng)
        c, s = cnf.full_adder(ins[0], ins[1], ins[2] if case["cin"] else None)
        checks.append(("full", lambda m, b: (_val(m, [c, s]) == sum(b), (_val(m, [c, s]), sum(b)))))
    elif kind == "saturate_adder":
        n = 3 if case["cin"] else 2
        cnf, ins = _inputs(CNF, Var, n, case["variant"], rng)
        s = cnf.saturate_adder(ins[0], ins[1], ins[2] if case["cin"] else None)
        checks.append(("sat", lambda m, b: (bool(m[int(s)]) == (sum(b) >= 1), (bool(m[int(s)]), sum(b)))))
    elif kind == "ripple_carry":
        w = case["w"]
        cnf, ins = _inputs(CNF, Var, 2 * w, case["variant"], rng)
        xs, ys = ins[:w], ins[w:]
        c, ss = cnf.ripple_carry(list(xs), list(ys))

        def chk(m, b, c=c, ss=ss, w=w):
            x = int("".join(map(str, b[:w])), 2)
            y = int("".join(map(str, b[w:])), 2)
            got = _val(m, [c] + list(reversed(ss)))
            return got == x + y, (x, y, got)
        checks.append(("ripple", chk))
    elif kind == "ripple_saturate":
        w, s = case["w"], case["s"]
        cnf, ins = _inputs(CNF, Var, 2 * w, case["variant"], rng)
        xs, ys = ins[:w], ins[w:]
        outs = cnf.ripple_saturate(list(xs), list(ys), s)

        def chk(m, b, outs=outs, w=w, s=s):
            x = int("".join(map(str, b[:w])), 2)
            y = int("".join(map(str, b[w:])), 2)
            got = _val(m, outs)
            if len(outs) > s:
                return False, ("more than saturate_at outputs", len(outs))
            if x + y < 2 ** (s - 1) or len(outs) < s:
                return got == x + y, (x, y, got, len(outs))
            return bool(m[int(outs[0])]), (x, y, got, "top bit must be set")
        checks.append(("ripple_saturate", chk))
    elif kind in ("pop_count", "pop_count_twice"):
        n, s = case["n"], case["s"]
        cnf, ins = _inputs(CNF, Var, n, case["variant"], rng)
        reps = 2 if kind == "pop_count_twice" else 1
        for rep in range(reps):
            sub = list(ins) if rep == 0 else list(reversed(ins))
            outs = cnf.pop_count(sub, s)

            def chk(m, b, outs=outs, s=s):
                cnt = sum(b)
                got = _val(m, outs)
                if s == 0 or cnt < 2 ** (s - 1):
                    return got == cnt, (cnt, got, len(outs))
                if len(outs) < s:
                    return got == cnt, (cnt, got, len(outs))
                return bool(m[int(outs[0])]), (cnt, got, "top bit must be set")
            checks.append(("pop_count#%d" % rep, chk))
    else:
        raise ValueError(kind)

    clauses = clauses_of(cnf)
    in_ids = [int(v) for v in ins]
    if len(set(in_ids)) != len(in_ids):
        raise AssertionError("harness: duplicate inputs")
    used = sorted({abs(l) for c in clauses for l in c} | set(in_ids))
    aux = [v for v in used if v not in in_ids]
    declared = cnf._num_vars
    nv = max(used + [declared])
    sat = Sat(clauses, nv)
    act = nv
    checked = 0
    for bits in itertools.product([0, 1], repeat=len(in_ids)):
        assum = [v if b else -v for v, b in zip(in_ids, bits)]
        m = sat.solve(assum)
        checked += 1
        if m is None:
            viol.append({"kind": "no_extension", "msg": "%s: inputs %s have no satisfying extension" % (kind, bits)})
            continue
        for name, fn in checks:
            ok, detail = fn(m, bits)
            if not ok:
                viol.append({"kind": "wrong_sum", "msg": "%s %s: inputs %s -> %s" % (kind, name, bits, detail)})
        if aux:
            act += 1
            sat.add([-act] + [(-v if m[v] else v) for v in aux])
            m2 = sat.solve(assum + [act])
            if m2 is not None:
                diff = [v for v in aux if m[v] != m2[v]]
                viol.append({"kind": "not_unique", "msg": "%s: inputs %s have two extensions differing on aux %s"
                                                          % (kind, bits, diff[:6])})
            sat.add([-act])
        if len(viol) > 5:
            break
    bad_aux = [v for v in aux if v > declared]
    if bad_aux:
        viol.append({"kind": "undeclared_var", "msg": "clauses use variables %s above the CNF's own counter %d"
                                                      % (bad_aux[:5], declared)})
    params = {k: v for k, v in case.items() if k not in ("seed", "cls")}
    return {"nontrivial": checked >= 2, "dkey": repr(sorted(params.items())), "violations": viol[:6],
            "counters": {"assignments_checked": checked, "clauses_seen": len(clauses), "aux_vars_seen": len(aux)},
            "sample": {"case": params, "inputs": in_ids, "clauses": len(clauses), "aux_vars": len(aux),
                       "assignments_checked": checked}}
