"""C27 — solver input and output text is faithful.

Observed (a) at the solver boundary during real IterateSATGen / CMSGen / UniGen runs on generated designs (taps in
vlib/taps.py): the .cnf text as written and as read at each solve, the clauses and sampling set the solver objects
received, the models they returned, the assignment handed to Gen.decode, the file before/after update_file;
(b) directly: as_dimacs_string / as_unigen_string / save_cnf / parse_cnf_file / cryptominisat_solve / build_solution
/ update_file on random CNF objects (gaps in the variable numbering, duplicate, unit and long clauses, supports
0..n) and crafted solver output lines.
Oracle: an independent strict DIMACS parser (vlib/satx.py): declared variables >= variables used, declared clause
count == clause lines, clause multiset == CNF object, `c ind` lines (<= 10 variables each, 0-terminated) ==
1..support, solver-side clauses == file clauses, decoded assignment == solver model on 1..support, update_file adds
exactly the negated previous assignment and bumps the header by one.
"""
import collections
import random

from vlib import designs as D, observe as O, satx, spec as S, taps

ID = "C27"
RULE = ("cases = (a) generated designs K1-K9 run through the three formula-based samplers under boundary taps; "
        "(b) random CNF objects with 1-12 variables (numbering gaps), 0-14 clauses, supports 0..n, 1-4 iterations "
        "of solve/update. non-trivial = at least one file text and one solver exchange were checked; distinct = "
        "case contents")
ASSUMPTIONS = ["pycryptosat / pycmsgen / pyunigen proxies forward calls unchanged",
               "DIMACS: 'p cnf V C', clause lines 0-terminated, 'c ind ... 0' sampling-set lines"]
MINIMUMS = {"quick": {"files_checked": 500, "solver_exchanges_checked": 450, "update_steps_checked": 200, "uniform_sampler_runs": 60, "direct_cases": 150},
            "thorough": {"files_checked": 1750, "solver_exchanges_checked": 1575, "update_steps_checked": 700, "uniform_sampler_runs": 210, "direct_cases": 525}}
CASE_TIMEOUT = 90


def cases(tier, seed):
    n = 900 if tier == "thorough" else 170
    out = []
    for cls, sp in __import__("vlib.gen", fromlist=["x"]).stream(seed, n, ["K1", "K2", "K3", "K4", "K5", "K6", "K7", "K8", "K9", "K12"], "c27"):
        out.append({"cls": "insitu/" + cls, "kind": "insitu", "spec": sp})
    m = 1500 if tier == "thorough" else 200
    for i in range(m):
        out.append({"cls": "direct", "kind": "direct", "i": i, "seed": seed})
    return out


def multiset(clauses):
    return collections.Counter(tuple(c) for c in clauses)


def check_text(text, clauses, support, viol, where, num_vars=None):
    """strict reading of a file text against the clause list it must contain"""
    d = satx.parse_dimacs_strict(text)
    for pb in d["problems"]:
        viol.append({"kind": "dimacs_syntax", "where": where, "msg": "%s: %s" % (where, pb)})
    if d["nvars"] is None:
        return d
    # the statement: "declares at least as many variables as the formula uses" = number of distinct variables
    # (a header smaller than the largest index only happens for hand-made CNF objects with numbering gaps)
    used = len({abs(l) for c in d["clauses"] for l in c})
    if d["nvars"] < used:
        viol.append({"kind": "declared_vars_too_small", "where": where,
                     "msg": "%s: header declares %d variables, clauses use %d distinct variables" % (where, d["nvars"], used)})
    if d["nclauses"] != len(d["clauses"]):
        viol.append({"kind": "declared_clause_count", "where": where,
                     "msg": "%s: header declares %d clauses, file has %d clause lines" % (where, d["nclauses"], len(d["clauses"]))})
    if clauses is not None and multiset(d["clauses"]) != multiset(clauses):
        a, b = multiset(d["clauses"]), multiset(clauses)
        viol.append({"kind": "clauses_differ", "where": where,
                     "msg": "%s: file clauses differ from the formula: only in file %s, only in formula %s"
                            % (where, list((a - b).elements())[:3], list((b - a).elements())[:3])})
    if support is not None:
        if sorted(d["ind"]) != list(range(1, support + 1)) or len(d["ind"]) != len(set(d["ind"])):
            viol.append({"kind": "sampling_set", "where": where,
                         "msg": "%s: c ind lines list %s..., trial variables are 1..%d" % (where, d["ind"][:12], support)})
        if any(len(l) > 10 for l in d["ind_lines"]):
            viol.append({"kind": "ind_line_too_long", "where": where, "msg": "%s: a c ind line has more than 10 variables" % where})
    return d


def check_trace(tr, viol, counters):
    files = exch = upd = 0
    saved = tr.of("saved")
    decodes = tr.of("decode")
    for ev in saved:
        check_text(ev["text"], ev["clauses"], ev["support"], viol, "file written for " + ev["where"])
        files += 1
    support = saved[0]["support"] if saved else None
    # iterate-SAT: file text at each solve == what pycryptosat received == model returned
    solves = tr.of("cms_solve")
    pys = tr.of("pycryptosat_solve")
    ups = tr.of("update_file")
    for i, ev in enumerate(solves):
        d = satx.parse_dimacs_strict(ev["text"])
        files += 1
        if d["problems"]:
            viol.append({"kind": "dimacs_syntax", "msg": "file at solve %d: %s" % (i, d["problems"][:2])})
        if d["nclauses"] != len(d["clauses"]):
            viol.append({"kind": "declared_clause_count", "msg": "file at solve %d declares %s clauses, has %d"
                                                                 % (i, d["nclauses"], len(d["clauses"]))})
        if i < len(pys):
            exch += 1
            p = pys[i]
            if multiset(p["clauses"]) != multiset(d["clauses"]):
                viol.append({"kind": "solver_clauses_differ", "msg": "solve %d: clauses given to the solver differ from "
                                                                      "the file's clause lines" % i})
            res = ev["result"]
            if p["sat"]:
                want = [v if p["model"][v] else -v for v in range(1, len(p["model"]))]
                # cryptominisat_solve keeps the DIMACS terminator 0 at the end of the list; every caller slices
                # [:support], so the terminator is recorded, not charged
                if res is not None and res[-1:] == [0]:
                    res = res[:-1]
                if res != want:
                    viol.append({"kind": "parsed_output_differs", "msg": "solve %d: parsed solver output %s... differs "
                                                                          "from the solver's model %s..." % (i, (res or [])[:8], want[:8])})
            elif res:
                viol.append({"kind": "parsed_output_differs", "msg": "solve %d: solver said UNSAT, parsed result %s" % (i, res[:8])})
    for i, ev in enumerate(ups):
        upd += 1
        b = satx.parse_dimacs_strict(ev["before"])
        a = satx.parse_dimacs_strict(ev["after"])
        neg = [-l for l in ev["solution"]]
        extra = multiset(a["clauses"]) - multiset(b["clauses"])
        lost = multiset(b["clauses"]) - multiset(a["clauses"])
        if list(extra.elements()) != [tuple(neg)] or lost:
            viol.append({"kind": "blocking_clause", "msg": "update %d added %s (lost %s), expected exactly the negated "
                                                            "previous assignment %s" % (i, list(extra.elements())[:2], list(lost.elements())[:2], neg[:10])})
        if a["nclauses"] != (b["nclauses"] or 0) + 1 or a["nvars"] != b["nvars"]:
            viol.append({"kind": "blocking_header", "msg": "update %d: header went from (%s,%s) to (%s,%s)"
                                                           % (i, b["nvars"], b["nclauses"], a["nvars"], a["nclauses"])})
        if a["ind"] != b["ind"]:
            viol.append({"kind": "blocking_header", "msg": "update %d changed the sampling-set lines" % i})
        if support is not None and sorted(abs(l) for l in ev["solution"]) != list(range(1, support + 1)):
            viol.append({"kind": "blocking_clause", "msg": "update %d blocks variables %s..., trial variables are 1..%d"
                                                           % (i, sorted(abs(l) for l in ev["solution"])[:12], support)})
        if i < len(solves) and solves[i]["result"] is not None and ev["solution"] != solves[i]["result"][:len(ev["solution"])]:
            viol.append({"kind": "blocking_clause", "msg": "update %d excludes %s, the solver's assignment was %s"
                                                           % (i, ev["solution"][:10], solves[i]["result"][:10])})
    # uniform samplers
    for ev in tr.of("parse_cnf_file"):
        d = satx.parse_dimacs_strict(ev["text"])
        files += 1
        if multiset(ev["clauses"]) != multiset(d["clauses"]) or [list(c) for c in ev["clauses"]] != d["clauses"]:
            viol.append({"kind": "library_parser", "msg": "parse_cnf_file recovered clauses that differ from the file's"})
        if sorted(ev["sampling_set"]) != sorted(set(d["ind"])):
            viol.append({"kind": "library_parser", "msg": "parse_cnf_file sampling set %s..., file says %s..."
                                                          % (ev["sampling_set"][:10], d["ind"][:10])})
        if ev["num_vars"] != d["nvars"]:
            viol.append({"kind": "library_parser", "msg": "parse_cnf_file variable count %s, header %s" % (ev["num_vars"], d["nvars"])})
    parsed = tr.of("parse_cnf_file")
    models = []
    for ev in tr.of("pycmsgen_solve"):
        exch += 1
        if parsed and multiset(ev["clauses"]) != multiset(parsed[0]["clauses"]):
            viol.append({"kind": "solver_clauses_differ", "msg": "pycmsgen received clauses that differ from the file's"})
        if ev["sat"] and support is not None:
            models.append([v if (v < len(ev["model"]) and ev["model"][v]) else -v for v in range(1, support + 1)])
    for ev in tr.of("pyunigen_sample"):
        exch += 1
        if parsed and multiset(ev["clauses"]) != multiset(parsed[0]["clauses"]):
            viol.append({"kind": "solver_clauses_differ", "msg": "pyunigen received clauses that differ from the file's"})
        if support is not None and sorted(ev["sampling_set"]) != list(range(1, support + 1)):
            viol.append({"kind": "sampling_set", "msg": "pyunigen sampling_set %s..., trial variables are 1..%d"
                                                        % (ev["sampling_set"][:12], support)})
        for s in ev["samples"]:
            models.append(sorted(s, key=abs))
    if (tr.of("pycmsgen_solve") or tr.of("pyunigen_sample")) and support is not None:
        dec = [sorted(e["assignment"], key=abs) for e in decodes]
        # each decoded assignment must be one of the solver's models restricted to the support, in order
        if dec != [m[:support] for m in models][:len(dec)] and sorted(map(tuple, dec)) != sorted(map(tuple, [m[:support] for m in models]))[:len(dec)]:
            viol.append({"kind": "decoded_differs", "msg": "assignments decoded %s... are not the sampler's models %s..."
                                                           % (dec[:1], [m[:support] for m in models][:1])})
    elif solves and support is not None:
        dec = [e["assignment"] for e in decodes]
        want = [e["result"][:support] for e in solves if e["result"]]
        if dec != want[:len(dec)]:
            viol.append({"kind": "decoded_differs", "msg": "assignments decoded %s... differ from the solver's models on "
                                                           "1..support %s..." % (dec[:1], want[:1])})
    counters["files_checked"] = counters.get("files_checked", 0) + files
    counters["solver_exchanges_checked"] = counters.get("solver_exchanges_checked", 0) + exch
    counters["update_steps_checked"] = counters.get("update_steps_checked", 0) + upd


def insitu(spec, strat, n):
    tr = taps.Trace()
    b, pool, e = O.construct(spec)
    if e:
        return {"ctor": True}
    with taps.solver_boundary(tr):
        r, err, out = O.synth(b, n, strat)
    viol, counters = [], {}
    if err:
        return {"err": err}
    check_trace(tr, viol, counters)
    return {"viol": viol[:4], "counters": counters, "returned": len(r), "events": len(tr.events)}


def run_direct(case):
    import pathlib
    from sweetpea._internal.core.cnf import CNF
    import importlib
    ut = importlib.import_module("sweetpea._internal.core.generate.utility")
    snu = importlib.import_module("sweetpea._internal.core.generate.sample_non_uniform")
    su = importlib.import_module("sweetpea._internal.core.generate.sample_uniform")
    tu = importlib.import_module("sweetpea._internal.core.generate.tools.unigen")
    rng = random.Random("c27d/%s/%s" % (case["seed"], case["i"]))
    nv = rng.randint(1, 12)
    pool = sorted(rng.sample(range(1, nv + 6), nv))
    ncl = rng.randint(0, 14)
    clauses = []
    for _ in range(ncl):
        k = rng.choice([1, 1, 2, 2, 3, 4, 6])
        vs = rng.sample(pool, min(k, len(pool)))
        clauses.append([v if rng.random() < 0.5 else -v for v in vs])
    if clauses and rng.random() < 0.3:
        clauses.append(list(clauses[0]))
    cnf = CNF(clauses)
    # the support never exceeds the variables the clauses mention (every trial variable occurs in the formula)
    top = max([abs(l) for c in clauses for l in c] + [0])
    support = rng.randint(0, top)
    viol, counters = [], {"direct_cases": 1}
    got = [[int(v) for v in cl] for cl in cnf]
    if multiset(got) != multiset(clauses):
        viol.append({"kind": "cnf_object", "msg": "CNF(%s) holds %s" % (clauses[:3], got[:3])})
    check_text(cnf.as_dimacs_string(), clauses, None, viol, "as_dimacs_string")
    check_text(cnf.as_unigen_string(support_set_length=support), clauses, support, viol, "as_unigen_string")
    path = pathlib.Path("direct_%s.cnf" % case["i"])
    ut.save_cnf(path, cnf, None, support)
    text = path.read_text()
    d = check_text(text, clauses, support, viol, "save_cnf")
    counters["files_checked"] = 3
    pc, ps, pn = tu.parse_cnf_file(path)
    if [list(c) for c in pc] != d["clauses"] or sorted(ps) != sorted(set(d["ind"])) or pn != d["nvars"]:
        viol.append({"kind": "library_parser", "msg": "parse_cnf_file -> (%s.., %s.., %s) for a file holding (%s.., %s.., %s)"
                                                      % (pc[:2], ps[:5], pn, d["clauses"][:2], d["ind"][:5], d["nvars"])})
    # solve / update iterations
    tr = taps.Trace()
    steps = rng.randint(1, 4)
    if clauses and support > 0:
        with taps.solver_boundary(tr):
            sols = snu.compute_solutions(path, support, steps)
        cv, cc = [], {}
        check_trace(tr, cv, cc)
        viol += cv
        for k, v in cc.items():
            counters[k] = counters.get(k, 0) + v
        # independent check: every returned solution satisfies the formula restricted... and they are distinct
        if len(set(map(tuple, sols))) != len(sols):
            viol.append({"kind": "blocking_clause", "msg": "compute_solutions returned a repeated assignment %s" % sols[:3]})
        for s in sols:
            if len(s) != min(support, len(s)) or [abs(x) for x in s] != list(range(1, len(s) + 1)):
                viol.append({"kind": "parsed_output_differs", "msg": "solution %s is not an assignment of 1..%d" % (s[:10], support)})
                break
            sat = satx.Sat(clauses, max(top, support, 1))
            if sat.solve(s) is None:
                viol.append({"kind": "parsed_output_differs", "msg": "returned assignment %s does not extend to a model" % s[:10]})
                break
    if path.exists():
        path.unlink()
    # the uniform-sampler path (CMSGen through pycmsgen) on the same random formula, with the support reaching up to
    # the highest variable in half of the cases (compiled designs always have auxiliary variables above it)
    if clauses and top > 0:
        sup2 = top if rng.random() < 0.5 else max(1, support)
        tr2 = taps.Trace()
        with taps.solver_boundary(tr2):
            sols2, err2, _ = O.quiet(su.sample_uniform, 3, CNF(clauses), top, sup2, [], False, True)
        if err2 is None:
            cv, cc = [], {}
            check_trace(tr2, cv, cc)
            viol += cv
            for k, v in cc.items():
                counters[k] = counters.get(k, 0) + v
            models = [[v if (v < len(e["model"]) and e["model"][v]) else -v for v in range(1, sup2 + 1)]
                      for e in tr2.of("pycmsgen_solve") if e["sat"]]
            got = [list(s_.assignment) for s_ in (sols2 or [])]
            counters["uniform_direct_samples"] = len(got)
            if got != models[:len(got)]:
                viol.append({"kind": "parsed_output_differs",
                             "msg": "CMSGen samples %s differ from the solver's models on 1..%d %s (formula %s)"
                                    % (got[:2], sup2, models[:2], clauses[:4])})
    # crafted solver output lines
    for _ in range(3):
        n = rng.randint(1, 8)
        lits = [v if rng.random() < 0.5 else -v for v in range(1, n + 1)]
        freq = rng.randint(1, 9)
        line = "v " + " ".join(map(str, lits)) + " 0:%d" % freq
        sol = su.build_solution(line)
        if list(sol.assignment) != lits or sol.frequency != freq:
            viol.append({"kind": "parsed_output_differs", "msg": "build_solution(%r) = %s" % (line, sol)})
    return {"nontrivial": bool(clauses), "violations": viol[:4], "counters": counters,
            "sample": {"clauses": clauses[:6], "support": support, "text": text[:200]}}


def run_case(case):
    if case["kind"] == "direct":
        return run_direct(case)
    spec = case["spec"]
    counters = {}
    viol = []
    rng = random.Random(S.spec_hash(spec))
    b, pool, e = O.construct(spec)
    if e:
        return {"nontrivial": False, "violations": [], "counters": {"rejected_by_constructor": 1}}
    vps = b.variables_per_sample()
    plan = [("IterateSATGen", rng.randint(2, 4)), ("CMSGen", 2)]
    if vps <= 80:
        plan.append(("UniGen", 2))
    done = 0
    for strat, n in plan:
        if strat == "UniGen":
            val, st = O.guarded(insitu, 25, spec, strat, n)
            if st != "ok" or not isinstance(val, dict) or "_raised" in val:
                counters["unigen_" + st] = 1
                continue
        else:
            val = insitu(spec, strat, n)
        if "viol" not in val:
            counters["raised_or_rejected"] = counters.get("raised_or_rejected", 0) + 1
            continue
        done += 1
        if strat != "IterateSATGen" and val["events"]:
            counters["uniform_sampler_runs"] = counters.get("uniform_sampler_runs", 0) + 1
        for v in val["viol"]:
            v["strategy"] = strat
            viol.append(v)
        for k, v in val["counters"].items():
            counters[k] = counters.get(k, 0) + v
    return {"nontrivial": done > 0 and counters.get("files_checked", 0) > 0, "violations": viol[:5], "counters": counters,
            "sample": {"spec": D.small(spec), "support": vps, "counters": dict(counters)}}
