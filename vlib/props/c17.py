"""C17 — the mismatch checker accepts exactly the valid sequences.

Observed: sample_mismatch_experiment(block, candidate) for (i) sequences of R.enumerate and (ii) systematic
perturbations of them that stay inside the statement's candidate domain (every applicable cell holds one of the
factor's level names, every other cell is ''): one cell changed to another level, two applicable cells of a
column swapped, basic columns rotated/reversed with derived columns recomputed, one trial duplicated over another.
Lists of wrong length are also offered (always invalid).
Oracle: {} <=> R.valid == []; an exception from the checker on an in-domain candidate is a violation too.
"""
import copy
import json
import random

from vlib import designs as D, observe as O, ref, spec as S

ID = "C17"
RULE = ("cases = generated design specs K1-K11 that R decides with 1..CAP valid sequences; per case up to N_VALID "
        "valid sequences and N_PERT in-domain perturbations (classified by R first) are given to the real checker. "
        "non-trivial = at least one valid and one invalid candidate judged; distinct = spec hashes")
ASSUMPTIONS = ["reference model R (vlib/ref.py) is the documented semantics inside its decidable region"]
MINIMUMS = {"quick": {"valid_candidates": 1500, "invalid_candidates": 4000, "designs_judged": 90},
            "thorough": {"valid_candidates": 5250, "invalid_candidates": 14000, "designs_judged": 315}}
CASE_TIMEOUT = 150
CAP = 300
N_VALID = 25
N_PERT = 70


def cases(tier, seed):
    out = D.spec_cases(tier, seed, None, 440, 3500, "c17")
    # appended classes of vlib/gen2.py (added after the generator freeze; see DESIGN.md 2.2)
    from vlib import gen2
    return out + gen2.appended(tier, seed, "c17", ['A5', 'A1', 'A2', 'A5', 'A3', 'A6'], 108, 720)


def recompute(spec, fl, seq):
    """derived columns recomputed from the basic ones (None if some derivation has no level)"""
    F = spec["factors"]
    T = fl.T
    out = {n: list(seq[n]) for n in seq}
    for n in ref.order_factors(spec, fl.design):
        if F[n]["kind"] != "derived":
            continue
        col = []
        for t in range(T):
            if S.applies(spec, n, t):
                out[n] = col + [""] * (T - len(col))
                idx = ref.derive(spec, n, {k: (col + [""] * (T - len(col)) if k == n else out[k]) for k in out}, t)
                if idx is None:
                    return None
                col.append(F[n]["levels"][idx][0])
            else:
                col.append("")
        out[n] = col
    return out


def perturb(rng, spec, fl, seq):
    F = spec["factors"]
    T = fl.T
    names = list(seq)
    kind = rng.choice(["cell", "cell", "cell", "swapcells", "rotate", "reverse", "duptrial", "length"])
    s = {n: list(v) for n, v in seq.items()}
    if kind == "cell":
        n = rng.choice(names)
        ts = [t for t in range(T) if S.applies(spec, n, t)]
        lv = S.level_names(spec, n)
        if not ts or len(lv) < 2:
            return None, kind
        t = rng.choice(ts)
        s[n][t] = rng.choice([l for l in lv if l != s[n][t]])
    elif kind == "swapcells":
        n = rng.choice(names)
        ts = [t for t in range(T) if S.applies(spec, n, t)]
        if len(ts) < 2:
            return None, kind
        a, b = rng.sample(ts, 2)
        s[n][a], s[n][b] = s[n][b], s[n][a]
    elif kind in ("rotate", "reverse", "duptrial"):
        basics = [n for n in names if F[n]["kind"] == "basic"]
        a, b = rng.randrange(T), rng.randrange(T)
        for n in basics:
            if kind == "rotate":
                s[n] = s[n][1:] + s[n][:1]
            elif kind == "reverse":
                s[n] = s[n][::-1]
            else:
                s[n][a] = s[n][b]
        s = recompute(spec, fl, s)
        if s is None:
            return None, kind
    else:
        n = rng.choice(names)
        if rng.random() < 0.5 and T > 1:
            s[n] = s[n][:-1]
        else:
            s[n] = s[n] + [s[n][-1]]
    return s, kind


def run_case(case):
    import sweetpea as sp
    p = D.prepare(case)
    if p.result:
        return p.result
    counters = p.counters
    fl = p.fl
    if fl.ctor_err or fl.und_T or fl.und or fl.T is None or O.hard_errors(p.block):
        counters["undecided_or_errors"] = 1
        return {"nontrivial": False, "violations": [], "counters": counters}
    if p.block.trials_per_sample() != fl.T:
        # the checker measures against the reported trial count; a reported count that differs from the documented
        # one is C16's subject and makes every documented-valid candidate a length mismatch here
        counters["reported_T_differs_from_documented"] = 1
        return {"nontrivial": False, "violations": [], "counters": counters}
    rs = ref.enumerate_valid(p.spec, fl, cap=CAP, node_cap=150000)
    if not rs:
        counters["no_valid_sequence_or_too_big"] = 1
        return {"nontrivial": False, "violations": [], "counters": counters}
    rng = random.Random(S.spec_hash(p.spec))
    rs_u = [D.user_view(p, s) for s in rs]
    valid_keys = set(O.seq_key(s) for s in rs_u)
    picks = rs_u if len(rs_u) <= N_VALID else rng.sample(rs_u, N_VALID)
    cands = [(s, True, "valid") for s in picks]
    seen = set()
    tries = 0
    while len(cands) < len(picks) + N_PERT and tries < 4 * N_PERT:
        tries += 1
        s, kind = perturb(rng, p.spec, fl, rng.choice(rs_u))
        if s is None:
            continue
        k = O.seq_key(s)
        if k in seen:
            continue
        seen.add(k)
        if kind == "length":
            ok = False
        else:
            ok = k in valid_keys if len(rs) < CAP else not ref.valid(p.spec, fl, s)
            if ok != (not ref.valid(p.spec, fl, s)):
                raise RuntimeError("reference model inconsistent: enumerate vs valid on %s" % k[:200])
        cands.append((s, ok, kind))
    viol = []
    nv = ni = 0
    kinds = {}
    # the same dict object, rewritten in place for every candidate: a caller may well check, edit and re-check
    fresh_verdicts = []
    for s, ok, kind in cands:
        res, err, out = O.quiet(sp.sample_mismatch_experiment, p.block, copy.deepcopy(s))
        fresh_verdicts.append(None if err else bool(res))
        if ok:
            nv += 1
        else:
            ni += 1
        kinds[kind] = kinds.get(kind, 0) + 1
        if err:
            viol.append(D.exc_violation(err, "sample_mismatch_experiment", kind="checker_exception",
                                        candidate_valid=ok, perturbation=kind))
        elif ok and res:
            viol.append({"kind": "valid_rejected", "categories": sorted(res),
                         "msg": "checker reports %s for a valid sequence %s" % (json.dumps(res, default=str)[:200],
                                                                                 O.seq_key(s)[:300])})
        elif not ok and not res:
            why = ref.valid(p.spec, fl, s) if kind != "length" else ["list length"]
            tag = D.invalid_violation("checker", s, why)
            viol.append({"kind": "invalid_accepted", "perturbation": kind, "reason_class": tag["reason_class"],
                         "constraint_type": tag["constraint_type"],
                         "msg": "checker reports no mismatch for an invalid sequence (%s): %s" % (
                             "; ".join(why[:2])[:300], O.seq_key(s)[:300])})
        if len(viol) >= 4:
            break
    # second pass: ONE dict object (and the same list objects) rewritten in place for every candidate and checked
    # consecutively — a caller may well check, edit and re-check; the verdicts must not depend on that history
    if not viol:
        probe = {k: list(v) for k, v in cands[0][0].items()}
        for (s, ok, kind), fv in zip(cands, fresh_verdicts):
            for k in probe:
                probe[k][:] = s[k]
            res_p, err_p, _ = O.quiet(sp.sample_mismatch_experiment, p.block, probe)
            counters["in_place_rechecks"] = counters.get("in_place_rechecks", 0) + 1
            if fv is not None and err_p is None and bool(res_p) != fv:
                viol.append({"kind": "verdict_depends_on_history", "candidate_valid": ok,
                             "msg": "the checker reports %s for these contents in a fresh dict but %s when they are written "
                                    "into a dict it checked just before: %s" % ("a mismatch" if fv else "no mismatch",
                                                                                json.dumps(res_p, default=str)[:120], O.seq_key(s)[:200])})
                break
    counters["valid_candidates"] = nv
    counters["invalid_candidates"] = ni
    counters["designs_judged"] = 1
    for k, v in kinds.items():
        counters["pert_" + k] = v
    return {"nontrivial": nv > 0 and ni > 0, "violations": viol, "counters": counters,
            "sample": {"spec": D.small(p.spec), "valid_candidates": nv, "invalid_candidates": ni,
                       "example_invalid": next((s for s, ok, k in cands if not ok), None)}}
