"""C06 — exhausting RandomGen yields exactly the valid set, then stops; its reported solution count is exact
for designs that need no rejection step.

Observed: RandomGen.sample(block, |R|+25) through the public API under a CPU-time budget; the metrics dict of the
same strategy object call. Oracle: multiset of printed sequences == R.enumerate (copy multiplicities included);
metrics['solution_count'] == |R| when the design has no complex factor/constraint, no preamble and exactly one
full round (the only shape in which that number denotes the whole sequence space); otherwise the product of the
three counts RandomGen uses as its exhaustion bound is compared with |R| when no rejection is involved.
"""
from vlib import designs as D, observe as O
from vlib.props.c02 import compare

ID = "C06"
RULE = ("cases = generated design specs K1-K11 that RandomGen accepts; non-trivial = R decides the design "
        "(<= CAP solutions) and RandomGen, asked for |R|+25, returned within its CPU budget and was compared; "
        "distinct = distinct spec hashes")
ASSUMPTIONS = ["reference model R (vlib/ref.py) is the documented semantics inside its decidable region"]
MINIMUMS = {"quick": {"compared": 110, "compared_nonempty": 50, "count_checked": 25, "sequences_compared": 1500},
            "thorough": {"compared": 385, "compared_nonempty": 175, "count_checked": 87, "sequences_compared": 5250}}
CASE_TIMEOUT = 150
CAP = 600


def cases(tier, seed):
    out = D.spec_cases(tier, seed, None, 400, 2200, "c06")
    # appended classes of vlib/gen2.py (added after the generator freeze; see DESIGN.md 2.2)
    from vlib import gen2
    return out + gen2.appended(tier, seed, "c06", ['A1', 'A2', 'A4'], 54, 330)


def run_case(case):
    import signal
    p = D.prepare(case)
    if p.result:
        return p.result
    counters = p.counters
    want = D.ref_counter(p, CAP)
    if want is None:
        counters["undecided_or_too_big"] = 1
        return {"nontrivial": False, "violations": [], "counters": counters}
    total = sum(want.values())
    from sweetpea._internal.sampling_strategy.random import RandomGen

    def on_alarm(signum, frame):
        raise D.SoftTimeout()
    old = signal.signal(signal.SIGVTALRM, on_alarm)
    signal.setitimer(signal.ITIMER_VIRTUAL, 40)
    try:
        res, err, out = O.quiet(RandomGen.sample, p.block, total + 25)
    except D.SoftTimeout:
        counters["random_timeout"] = 1
        return {"nontrivial": False, "violations": [], "counters": counters,
                "inconclusive": None}
    finally:
        signal.setitimer(signal.ITIMER_VIRTUAL, 0)
        signal.signal(signal.SIGVTALRM, old)
    viol = []
    if err:
        counters["raised"] = 1
        return {"nontrivial": False, "violations": [], "counters": counters}
    seqs = []
    for e in res.samples:
        w = p.block.add_implied_levels(e)
        seqs.append({k: v for k, v in w.items() if isinstance(k, str) and k in p.user})
    got = D.seq_counter(seqs)
    exhausted = len(seqs) < total + 25
    if not exhausted:
        counters["returned_as_many_as_requested"] = 1
    viol = compare(p, want, got, "RandomGen", exhausted)
    counters["compared"] = 1
    counters["compared_empty" if not want else "compared_nonempty"] = 1
    counters["sequences_compared"] = total
    m = res.metrics
    from vlib import spec as S
    # "needs no rejection step": nothing but the crossing (and MinimumTrials) restricts the sequences and no
    # factor has a window over several trials
    simple = (all(c["type"] == "MinimumTrials" for c in S.all_constraints(p.spec["block"]))
              and not any(S.is_complex(p.spec, n) for n in p.fl.design)
              and p.fl.geo and p.fl.geo[1] == 0 and len(p.fl.crossings) == 1 and not O.hard_errors(p.block))
    if simple and "solution_count" in m:
        cr = p.fl.crossings[0]
        one_round = p.fl.T == cr["S"] * cr["cw"] * cr["sustain"]
        if one_round:
            counters["count_checked"] = 1
            if m["solution_count"] != total:
                viol.append({"kind": "wrong_count", "reported": m["solution_count"], "valid": total,
                             "msg": "RandomGen reports solution_count=%s, the design has %d valid sequences"
                                    % (m["solution_count"], total)})
        else:
            counters["count_not_single_round"] = 1
    return {"nontrivial": True, "violations": viol, "counters": counters,
            "sample": {"spec": D.small(p.spec), "T": p.fl.T, "valid_sequences": total, "returned": len(seqs),
                       "metrics_solution_count": m.get("solution_count")}}
