"""Continuous-factor designs with recording probes (DESIGN.md C22 / C19).

cspec = {"base": <flat discrete spec>, "cont": [cf...], "ccons": [{"factors": [names], "mod": m, "rem": r}]}
cf = {"name", "kind": "uniform"|"gauss"|"expo"|"lognorm"|"fresh"|"dep"|"win"|"cumul",
      "deps": [factor names]  (dep: discrete or continuous, same trial),
      "win": {"factors": [continuous names], "width", "stride", "start"|None}  (win)}
Probe semantics (all deterministic functions of their arguments, so returned values identify the calls):
  fresh : a globally unique number  7*serial + 0.5  (serial counts every call in the process)
  dep   : f(args) = 0.25 + sum_i (i+2) * num(arg_i)   where num(level name) = index of the level + 1, num(x) = x
  win   : f(w)    = 0.125 + sum over factors/lags (lag+2) * (value, or -7 for NaN)
  cumul : running sum of fresh-like increments 1 + (serial % 3), restarted with every sequence
Constraint probe over (x1..xn): int(sum) % mod != rem, evaluations are logged.
"""
import math


class Probes:
    def __init__(self):
        import random
        self.rng = random.Random(12345)
        self.serial = 0
        self.calls = []          # (factor, args, value)
        self.con_evals = []      # (constraint index, args, result)

    def fresh(self, name):
        def f():
            # unique and increasing, with random gaps so that residues of consecutive draws are not periodic
            self.serial += self.rng.randint(1, 4)
            v = 7.0 * self.serial + 0.5
            self.calls.append((name, (), v))
            return v
        return f


def num(x, spec=None, fname=None):
    return x


def dep_value(cspec, deps, args):
    tot = 0.25
    for i, (d, a) in enumerate(zip(deps, args)):
        if isinstance(a, str):
            lv = [l[0] for l in cspec["base"]["factors"][d]["levels"]]
            a = lv.index(a) + 1
        tot += (i + 2) * a
    return tot


def win_value(wins):
    """wins: list of dicts {0: v, -1: v, ...} (one per windowed factor)"""
    tot = 0.125
    for fi, w in enumerate(wins):
        for lag, v in w.items():
            if isinstance(v, float) and math.isnan(v):
                v = -7.0
            tot += (fi + 1) * (-lag + 2) * v
    return tot


def build(cspec):
    """-> (block, probes)"""
    import sweetpea as sp
    from . import build as B
    pool = B.Pool(cspec["base"])
    probes = Probes()
    cfs = {}
    for cf in cspec["cont"]:
        k = cf["kind"]
        n = cf["name"]
        if k == "uniform":
            dist = sp.UniformDistribution(cf["low"], cf["high"])
        elif k == "gauss":
            dist = sp.GaussianDistribution(cf["mean"], cf["sigma"])
        elif k == "expo":
            dist = sp.ExponentialDistribution(cf["rate"])
        elif k == "lognorm":
            dist = sp.LogNormalDistribution(cf["mean"], cf["sigma"])
        elif k == "fresh":
            dist = sp.CustomDistribution(probes.fresh(n))
        elif k == "cumul":
            def mk(name):
                def f():
                    probes.serial += 1
                    v = 1.0 + (probes.serial % 3)
                    probes.calls.append((name, (), v))
                    return v
                return f
            dist = sp.CustomDistribution(mk(n), cumulative=True)
        elif k == "dep":
            deps = [cfs[d] if d in cfs else pool.factors[d] for d in cf["deps"]]

            def mk(name, dnames):
                def f(*args):
                    v = dep_value(cspec, dnames, args)
                    probes.calls.append((name, tuple(args), v))
                    return v
                return f
            dist = sp.CustomDistribution(mk(n, cf["deps"]), deps)
        elif k == "win":
            w = cf["win"]
            win = sp.ContinuousFactorWindow([cfs[d] for d in w["factors"]], w["width"], w["stride"], w["start"])

            def mk(name):
                def f(arg):
                    wins = arg if isinstance(arg, list) else [arg]
                    v = win_value(wins)
                    probes.calls.append((name, "window", v))
                    return v
                return f
            dist = sp.CustomDistribution(mk(n), [win])
        else:
            raise ValueError(k)
        cfs[n] = sp.ContinuousFactor(n, distribution=dist)
    cons = []
    tree = cspec["base"]["block"]
    flat = tree["op"] == "cross" and tree.get("ctor", "CrossBlock") == "CrossBlock" and len(tree["crossings"]) == 1
    if not cspec["cont"] and not cspec.get("ccons") and not flat:
        # purely discrete: any block shape (several crossings, combinators) through the general builder
        return pool.block(tree), probes
    for c in tree["cons"]:
        cons.append(pool.constraint(c))
    for ci, cc in enumerate(cspec.get("ccons", [])):
        def mk(ci, mod, rem, nargs):
            def body(*xs):
                r = int(sum(xs)) % mod != rem
                probes.con_evals.append((ci, tuple(xs), r))
                return r
            # ContinuousConstraint.validate inspects the signature: it must have exactly nargs parameters
            if nargs == 1:
                return lambda a: body(a)
            if nargs == 2:
                return lambda a, b: body(a, b)
            return lambda a, b, c: body(a, b, c)
        from sweetpea._internal.constraint import ContinuousConstraint
        cons.append(ContinuousConstraint([cfs[n] for n in cc["factors"]],
                                            mk(ci, cc["mod"], cc["rem"], len(cc["factors"]))))
    design = [pool.factors[n] for n in tree["design"]] + [cfs[cf["name"]] for cf in cspec["cont"]]
    block = sp.CrossBlock(design, [pool.factors[n] for n in tree["crossings"][0]], cons, tree.get("rcc", True))
    return block, probes


def expected_window(vals, t, w):
    """the documented window of one factor at trial t: {0: v[t], -1: v[t-1], ...}, NaN where undefined"""
    width, stride, start = w["width"], w["stride"], w["start"]
    if start is None:
        start = width - 1
    nan = float("nan")
    if t < start or (stride > 1 and (t - start) % stride != 0):
        return {-k: nan for k in range(width)}
    return {-k: (vals[t - k] if t - k >= 0 else nan) for k in range(width)}


def check_sequence(cspec, seq, T):
    """reasons why the continuous part of one returned sequence breaks C22"""
    reasons = []
    by = {cf["name"]: cf for cf in cspec["cont"]}
    for n, cf in by.items():
        if n not in seq:
            reasons.append("continuous factor %s missing from the sequence" % n)
            return reasons
        if len(seq[n]) != T:
            reasons.append("continuous factor %s has %d values for %d trials" % (n, len(seq[n]), T))
            return reasons
    for n, cf in by.items():
        vals = seq[n]
        k = cf["kind"]
        if k == "uniform":
            if any(not (cf["low"] <= v <= cf["high"]) for v in vals):
                reasons.append("%s: a value outside [%s, %s]" % (n, cf["low"], cf["high"]))
        elif k in ("expo", "lognorm"):
            if any(not (v >= 0) for v in vals):
                reasons.append("%s: negative value from a non-negative distribution" % n)
        elif k == "fresh":
            if len(set(vals)) != len(vals) or any((v - 0.5) % 7 != 0 for v in vals) or sorted(vals) != vals:
                reasons.append("%s: values %s are not one fresh draw per trial in trial order" % (n, vals))
        elif k == "cumul":
            incs = [vals[0]] + [b - a for a, b in zip(vals, vals[1:])]
            if any(i not in (1.0, 2.0, 3.0) for i in incs):
                reasons.append("%s: cumulative values %s do not restart at 0 / grow by the drawn increments" % (n, vals))
        elif k == "dep":
            for t in range(T):
                args = [seq[d][t] for d in cf["deps"]]
                want = dep_value(cspec, cf["deps"], args)
                if vals[t] != want:
                    reasons.append("%s at trial %d is %r, its function of the same trial's %s=%s gives %r"
                                   % (n, t, vals[t], cf["deps"], args, want))
                    break
        elif k == "win":
            for t in range(T):
                wins = [expected_window(seq[d], t, cf["win"]) for d in cf["win"]["factors"]]
                want = win_value(wins)
                if vals[t] != want:
                    reasons.append("%s at trial %d is %r, the documented window %s gives %r" % (n, t, vals[t], wins, want))
                    break
    for cc in cspec.get("ccons", []):
        for t in range(T):
            xs = [seq[n][t] for n in cc["factors"]]
            if int(sum(xs)) % cc["mod"] == cc["rem"]:
                reasons.append("ContinuousConstraint over %s fails at trial %d: values %s" % (cc["factors"], t, xs))
                break
    return reasons
