"""Observation helpers: build a design from a spec, run real sampling strategies quietly, collect what happened."""
import contextlib
import io
import json
import os
import traceback
import warnings

from . import build as B

warnings.filterwarnings("ignore")


def exc_info(e):
    tb = traceback.extract_tb(e.__traceback__)
    inner = None
    for fr in tb:
        if "/sweetpea/" in fr.filename:
            inner = fr
    top = tb[-1] if tb else None
    return {"exc": type(e).__name__, "msg": str(e)[:300],
            "func": inner.name if inner else (top.name if top else None),
            "file": os.path.basename(inner.filename) if inner else (os.path.basename(top.filename) if top else None),
            "line": inner.lineno if inner else None,
            "last_func": top.name if top else None,
            "in_predicate": isinstance(e, B.PredicateDomainError)}


def quiet(fn, *a, **k):
    """-> (result, excinfo|None, stdout)"""
    buf = io.StringIO()
    with contextlib.redirect_stdout(buf):
        try:
            r = fn(*a, **k)
            return r, None, buf.getvalue()
        except Exception as e:  # noqa
            return None, exc_info(e), buf.getvalue()


def construct(spec, strict=True):
    """-> (block, pool, excinfo)"""
    r, err, out = quiet(B.build, spec, strict)
    if err:
        return None, None, err
    return r[0], r[1], None


def strategy(name):
    import sweetpea as sp
    return getattr(sp, name)


def synth(block, n, name):
    """synthesize_trials through the public API -> (list|None, excinfo, stdout)"""
    import sweetpea as sp
    return quiet(sp.synthesize_trials, block, n, strategy(name))


def seq_key(seq):
    return json.dumps(seq, sort_keys=True)


def user_names(spec):
    return list(spec["block"] and __import__("vlib.spec", fromlist=["x"]).tree_design(spec["block"]))


def cnf_models(block, cap=20000):
    """All solutions of build_cnf(block) projected on the trial variables, decoded by the real Gen.decode.
    -> (list of (assignment lits tuple, decoded dict), complete?, info)"""
    from sweetpea._internal.server import build_cnf
    from sweetpea._internal.sampling_strategy.base import Gen
    from .satx import enumerate_projected, clauses_of
    cnf = build_cnf(block)
    clauses = clauses_of(cnf)
    support = block.variables_per_sample()
    nvars = max([abs(l) for c in clauses for l in c] + [support, 1])
    sols, complete = enumerate_projected(clauses, list(range(1, support + 1)), cap, nvars)
    out = []
    for lits in sols:
        dec = Gen.decode(block, list(lits))
        dec = block.add_implied_levels(dec)
        dec = {k: v for k, v in dec.items() if isinstance(k, str)}
        out.append((lits, dec))
    return out, complete, {"clauses": len(clauses), "support": support, "nvars": nvars}


def block_errors(block):
    return sorted(str(e) for e in getattr(block, "errors", []))
