"""Observation helpers: build a design from a spec, run real sampling strategies quietly, collect what happened."""
import contextlib
import io
import json
import os
import traceback
import warnings

from . import build as B

warnings.filterwarnings("ignore")


def exc_info(e):
    tb = traceback.extract_tb(e.__traceback__)
    inner = None
    for fr in tb:
        if "/sweetpea/" in fr.filename:
            inner = fr
    top = tb[-1] if tb else None
    return {"exc": type(e).__name__, "msg": str(e)[:300],
            "func": inner.name if inner else (top.name if top else None),
            "file": os.path.basename(inner.filename) if inner else (os.path.basename(top.filename) if top else None),
            "line": inner.lineno if inner else None,
            "last_func": top.name if top else None,
            "in_predicate": isinstance(e, B.PredicateDomainError)}


def quiet(fn, *a, **k):
    """-> (result, excinfo|None, stdout)"""
    buf = io.StringIO()
    with contextlib.redirect_stdout(buf):
        try:
            r = fn(*a, **k)
            return r, None, buf.getvalue()
        except Exception as e:  # noqa
            return None, exc_info(e), buf.getvalue()


def construct(spec, strict=True):
    """-> (block, pool, excinfo)"""
    r, err, out = quiet(B.build, spec, strict)
    if err:
        return None, None, err
    return r[0], r[1], None


def strategy(name):
    import sweetpea as sp
    return getattr(sp, name)


def synth(block, n, name):
    """synthesize_trials through the public API -> (list|None, excinfo, stdout)"""
    import sweetpea as sp
    return quiet(sp.synthesize_trials, block, n, strategy(name))


def seq_key(seq):
    return json.dumps(seq, sort_keys=True)


def user_names(spec):
    return list(spec["block"] and __import__("vlib.spec", fromlist=["x"]).tree_design(spec["block"]))


def cnf_models(block, cap=20000):
    """All solutions of build_cnf(block) projected on the trial variables, decoded by the real Gen.decode.
    -> (list of (assignment lits tuple, decoded dict), complete?, info)"""
    from sweetpea._internal.server import build_cnf
    from sweetpea._internal.sampling_strategy.base import Gen
    from .satx import enumerate_projected, clauses_of
    cnf = build_cnf(block)
    clauses = clauses_of(cnf)
    support = block.variables_per_sample()
    nvars = max([abs(l) for c in clauses for l in c] + [support, 1])
    sols, complete = enumerate_projected(clauses, list(range(1, support + 1)), cap, nvars)
    out = []
    for lits in sols:
        dec = Gen.decode(block, list(lits))
        dec = block.add_implied_levels(dec)
        dec = {k: v for k, v in dec.items() if isinstance(k, str)}
        out.append((lits, dec))
    return out, complete, {"clauses": len(clauses), "support": support, "nvars": nvars}


def hard_errors(block):
    """error messages that make every sampler return [] (block.show_errors() semantics), without printing"""
    return sorted(str(e) for e in getattr(block, "errors", []) if "WARNING" not in str(e))


def block_errors(block):
    return sorted(str(e) for e in getattr(block, "errors", []))


def guarded(fn, timeout, *a, **k):
    """Run fn(*a, **k) in a forked child with a hard wall-clock limit (native solver calls ignore SIGALRM).
    fn must return something JSON-able. -> (value|None, status) with status in {'ok','timeout','died'}"""
    import select
    import signal
    import sys
    import time
    rfd, wfd = os.pipe()
    pid = os.fork()
    if pid == 0:
        code = 0
        try:
            os.close(rfd)
            signal.alarm(0)
            try:
                val = fn(*a, **k)
                data = json.dumps({"v": val}, default=str).encode()
            except BaseException as e:  # noqa
                data = json.dumps({"e": exc_info(e) if isinstance(e, Exception) else {"exc": type(e).__name__,
                                                                                     "msg": str(e)[:200]}}).encode()
            with os.fdopen(wfd, "wb") as f:
                f.write(data)
        except BaseException:
            code = 1
        finally:
            os._exit(code)
    os.close(wfd)
    chunks = []
    deadline = time.time() + timeout
    status = "ok"
    with os.fdopen(rfd, "rb") as f:
        while True:
            left = deadline - time.time()
            if left <= 0:
                status = "timeout"
                break
            r, _, _ = select.select([f], [], [], min(left, 1.0))
            if r:
                b = os.read(f.fileno(), 1 << 16)
                if not b:
                    break
                chunks.append(b)
    if status == "timeout":
        try:
            os.kill(pid, signal.SIGKILL)
        except OSError:
            pass
    os.waitpid(pid, 0)
    if status == "timeout":
        return None, "timeout"
    try:
        d = json.loads(b"".join(chunks).decode())
    except Exception:
        return None, "died"
    if "e" in d:
        return {"_raised": d["e"]}, "ok"
    return d["v"], "ok"


def synth_guarded(spec, n, name, timeout=30, strict=True):
    """Fresh build + synthesize_trials in a forked child. -> (list|None, excinfo|None, status)"""
    def work():
        b, pool, e = construct(spec, strict)
        if e:
            return {"ctor": e}
        r, err, out = synth(b, n, name)
        return {"r": r, "err": err}
    val, status = guarded(work, timeout)
    if status != "ok":
        return None, None, status
    if "_raised" in val:
        return None, val["_raised"], "ok"
    if "ctor" in val:
        return None, val["ctor"], "ctor"
    return val["r"], val["err"], "ok"
