"""Boundary taps (DESIGN.md section 2.4): recording proxies at the solver boundary and on module attributes that
sweetpea resolves at call time. Everything is installed from the harness; nothing in /repo is edited."""
import contextlib


class Trace:
    def __init__(self):
        self.events = []

    def add(self, kind, **kw):
        kw["kind"] = kind
        self.events.append(kw)

    def of(self, kind):
        return [e for e in self.events if e["kind"] == kind]


@contextlib.contextmanager
def solver_boundary(trace):
    """Records: the text of the .cnf file when it has been written (combine_and_save_cnf) and at every solve
    (cryptominisat_solve), before/after texts of update_file, clauses/models at pycryptosat / pycmsgen / pyunigen,
    what parse_cnf_file returned, and the assignments handed to Gen.decode."""
    import pycryptosat
    import pycmsgen
    import pyunigen
    import importlib
    snu = importlib.import_module("sweetpea._internal.core.generate.sample_non_uniform")
    su = importlib.import_module("sweetpea._internal.core.generate.sample_uniform")
    ut = importlib.import_module("sweetpea._internal.core.generate.utility")
    tu = importlib.import_module("sweetpea._internal.core.generate.tools.unigen")
    sb = importlib.import_module("sweetpea._internal.sampling_strategy.base")
    saved = []

    def patch(obj, name, new):
        saved.append((obj, name, obj.__dict__[name] if isinstance(obj, type) else getattr(obj, name)))
        setattr(obj, name, new)

    def wrap_save(real, where):
        def combine_and_save_cnf(filename, initial_cnf, fresh, support, generation_requests):
            r = real(filename, initial_cnf, fresh, support, generation_requests)
            cnf = ut.combine_cnf_with_requests(initial_cnf, fresh, support, generation_requests)
            trace.add("saved", where=where, text=filename.read_text(), support=support,
                      clauses=[[int(v) for v in cl] for cl in cnf], num_vars=cnf._num_vars)
            return r
        return combine_and_save_cnf
    patch(snu, "combine_and_save_cnf", wrap_save(snu.combine_and_save_cnf, "non_uniform"))
    patch(su, "combine_and_save_cnf", wrap_save(su.combine_and_save_cnf, "uniform"))

    real_solve = snu.cryptominisat_solve

    def cryptominisat_solve(filename, *a, **k):
        text = filename.read_text()
        r = real_solve(filename, *a, **k)
        trace.add("cms_solve", text=text, result=None if r is None else list(r))
        return r
    patch(snu, "cryptominisat_solve", cryptominisat_solve)

    real_update = snu.update_file

    def update_file(filename, solution):
        before = filename.read_text()
        r = real_update(filename, solution)
        trace.add("update_file", before=before, after=filename.read_text(), solution=list(solution))
        return r
    patch(snu, "update_file", update_file)

    real_parse = tu.parse_cnf_file

    def parse_cnf_file(input_file):
        text = open(input_file).read()
        r = real_parse(input_file)
        trace.add("parse_cnf_file", text=text, clauses=[list(c) for c in r[0]], sampling_set=list(r[1]), num_vars=r[2])
        return r
    patch(tu, "parse_cnf_file", parse_cnf_file)

    def proxy_solver(real_cls, label):
        class Solver:
            def __init__(self, *a, **k):
                self._s = real_cls(*a, **k)
                self._clauses = []

            def add_clause(self, clause):
                self._clauses.append(list(clause))
                return self._s.add_clause(clause)

            def add_clauses(self, clauses):
                for c in clauses:
                    self.add_clause(c)

            def solve(self, *a, **k):
                r = self._s.solve(*a, **k)
                sat, model = r[0], r[1]
                trace.add(label + "_solve", clauses=self._clauses[:], sat=bool(sat),
                          model=None if not sat else [bool(x) if x is not None else None for x in model])
                return r

            def __getattr__(self, n):
                return getattr(self._s, n)
        return Solver
    patch(pycryptosat, "Solver", proxy_solver(pycryptosat.Solver, "pycryptosat"))
    patch(pycmsgen, "Solver", proxy_solver(pycmsgen.Solver, "pycmsgen"))

    real_sampler = pyunigen.Sampler

    class Sampler:
        def __init__(self, *a, **k):
            self._s = real_sampler(*a, **k)
            self._clauses = []

        def add_clause(self, clause):
            self._clauses.append(list(clause))
            return self._s.add_clause(clause)

        def sample(self, *a, **k):
            r = self._s.sample(*a, **k)
            trace.add("pyunigen_sample", clauses=self._clauses[:], sampling_set=list(k.get("sampling_set") or []),
                      num=k.get("num"), samples=[list(s) for s in (r[2] or [])])
            return r

        def __getattr__(self, n):
            return getattr(self._s, n)
    patch(pyunigen, "Sampler", Sampler)

    real_decode = sb.Gen.__dict__["decode"]
    fn = real_decode.__func__ if isinstance(real_decode, staticmethod) else real_decode

    def decode(block, solution):
        trace.add("decode", assignment=list(solution))
        return fn(block, solution)
    saved.append((sb.Gen, "decode", real_decode))
    sb.Gen.decode = staticmethod(decode)
    try:
        yield trace
    finally:
        for obj, name, old in reversed(saved):
            setattr(obj, name, old)
