"""Known-finding classifier (DESIGN.md §3.2).

known_findings.json is committed and never written at run time. An entry absorbs a violation only when
*every* field listed under "match" equals the violation's field of that name (prefix "re:" = regex
search) and the named design predicate holds for the case; everything else stays a new VIOLATION.
"""
import json
import os
import re

from . import paths

_cache = None


def load():
    global _cache
    if _cache is None:
        if os.path.exists(paths.KNOWN_FINDINGS):
            with open(paths.KNOWN_FINDINGS) as f:
                _cache = json.load(f)
        else:
            _cache = {"findings": [], "fixed": []}
    return _cache


def for_property(pid):
    return [f for f in load().get("findings", []) if f["property"] == pid]


def _field_match(want, got):
    if isinstance(want, str) and want.startswith("re:"):
        return got is not None and re.search(want[3:], str(got)) is not None
    if isinstance(want, list):
        return got in want
    return want == got


def classify(pid, case, violation):
    for f in for_property(pid):
        m = f.get("match", {})
        ok = True
        for k, want in m.items():
            if k == "predicate":
                continue
            if not _field_match(want, violation.get(k)):
                ok = False
                break
        if not ok:
            continue
        pred = m.get("predicate")
        if pred:
            from . import predicates
            fn = getattr(predicates, pred, None)
            if fn is None:
                continue
            try:
                if not fn(case, violation):
                    continue
            except Exception:
                continue
        return f["id"]
    return None
