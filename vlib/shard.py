"""Shard worker: runs a list of cases of one property inside one process, each under a watchdog."""
import contextlib
import faulthandler
import io
import json
import os
import signal
import sys
import traceback
import warnings


class Watchdog(BaseException):
    pass


def _alarm(signum, frame):
    raise Watchdog()


def main():
    pid, inp, outp = sys.argv[1:4]
    warnings.filterwarnings("ignore")
    faulthandler.enable()
    sys.setrecursionlimit(20000)
    from . import runner
    mod = runner.load_prop(pid)
    with open(inp) as f:
        cases = json.load(f)
    signal.signal(signal.SIGALRM, _alarm)
    default_to = getattr(mod, "CASE_TIMEOUT", 60)
    out = open(outp, "w")
    for c in cases:
        cid = c["_cid"]
        case = {k: v for k, v in c.items() if not k.startswith("_")}
        buf = io.StringIO()
        signal.alarm(int(c.get("_timeout", default_to)))
        try:
            with contextlib.redirect_stdout(buf):
                r = mod.run_case(case)
        except Watchdog:
            r = {"nontrivial": False, "violations": [], "inconclusive": "case watchdog", "counters": {"watchdog": 1}}
        except BaseException as e:  # a harness error is never a verdict on the code under test
            if isinstance(e, (KeyboardInterrupt, SystemExit)):
                raise
            r = {"nontrivial": False, "violations": [],
                 "inconclusive": "harness error: %s: %s | %s" % (
                     type(e).__name__, str(e)[:200], traceback.format_exc()[-1200:]),
                 "counters": {"harness_error": 1}}
        finally:
            signal.alarm(0)
        r["cid"] = cid
        r.setdefault("violations", [])
        r.setdefault("counters", {})
        r.setdefault("inconclusive", None)
        r.setdefault("cls", case.get("cls", "-"))
        out.write(json.dumps(r, default=str) + "\n")
        out.flush()
        # sweetpea drops <uuid>.cnf files into the cwd when a call is interrupted
        for fn in os.listdir("."):
            if fn.endswith(".cnf") or fn.endswith(".opb"):
                try:
                    os.unlink(fn)
                except OSError:
                    pass
    out.close()
    os._exit(0)  # do not wait for stray non-daemon timer threads (SMGen)


if __name__ == "__main__":
    main()
