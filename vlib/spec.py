"""Design specs: plain JSON descriptions of factors, derived-level truth tables, block trees and constraints.

spec = {"factors": {name: factor}, "order": [names in definition order], "block": tree}
factor = {"kind": "basic", "levels": [[lname, weight], ...]}
       | {"kind": "derived", "win": [type, width, stride, start|None], "deps": [names],
          "levels": [[lname, weight], ...], "table": {json(argtuple): level_index | None}, "else": idx | None}
   type in {"within","transition","window"}; argtuple = for each dep, for j in 0..width-1 the dep's level name at
   trial t-(width-1-j) (oldest first), None where the dep has no level yet. A table value None = no level accepts
   (malformed on purpose, C15); "table2" optionally maps argtuple -> second accepting level (overlap, C15).
tree   = {"op": "cross", "design": [...], "crossings": [[...]], "cons": [...], "rcc": bool,
          "mode": "weight|repeat|equal", "align": "equal|post|parallel", "ctor": "CrossBlock|MultiCrossBlock"}
       | {"op": "repeat", "block": tree, "cons": [...]}
       | {"op": "merge", "blocks": [tree...], "cons": [...], "mode": ..., "align": None|...}
       | {"op": "nest", "outer": tree, "inner": tree, "cons": [...]}
con    = {"type": T, "factor": name, "level": lname|None, "k": int, "index": int, "trials": int, "factors": [...]}
"""
import hashlib
import json


def akey(args):
    return json.dumps(list(args))


def spec_hash(spec):
    return hashlib.sha1(json.dumps(spec, sort_keys=True).encode()).hexdigest()[:16]


def level_names(spec, fname):
    return [l[0] for l in spec["factors"][fname]["levels"]]


def weight_of(spec, fname, lname):
    for n, w in spec["factors"][fname]["levels"]:
        if n == lname:
            return w
    raise KeyError((fname, lname))


def fstart(spec, fname):
    f = spec["factors"][fname]
    if f["kind"] == "basic":
        return 0
    ty, w, s, a = f["win"]
    if a is not None:
        return a
    d = w - 1
    for dn in f["deps"]:
        ra = fstart(spec, dn) if is_complex(spec, dn) else 0
        d = max(d, ra + w - 1)
    return d


def is_complex(spec, fname):
    f = spec["factors"][fname]
    if f["kind"] == "basic":
        return False
    ty, w, s, a = f["win"]
    if w > 1 or s > 1 or fstart(spec, fname) > 0:
        return True
    return is_complex(spec, f["deps"][0])


def stride(spec, fname):
    f = spec["factors"][fname]
    return 1 if f["kind"] == "basic" else f["win"][2]


def applies(spec, fname, t):
    f = spec["factors"][fname]
    if f["kind"] == "basic":
        return True
    st = fstart(spec, fname)
    return t >= st and (t - st) % f["win"][2] == 0


def depth(spec, fname):
    f = spec["factors"][fname]
    return 0 if f["kind"] == "basic" else 1 + max(depth(spec, d) for d in f["deps"])


def basic_roots(spec, fname):
    f = spec["factors"][fname]
    if f["kind"] == "basic":
        return {fname}
    s = set()
    for d in f["deps"]:
        s |= basic_roots(spec, d)
    return s


def uses(spec, fname, other):
    if fname == other:
        return True
    f = spec["factors"][fname]
    return f["kind"] == "derived" and any(uses(spec, d, other) for d in f["deps"])


def arg_domain(spec, fname):
    """All argument tuples the table of derived factor `fname` must cover (None included where reachable)."""
    import itertools
    f = spec["factors"][fname]
    ty, w, s, a = f["win"]
    st = fstart(spec, fname)
    doms = []
    for dn in f["deps"]:
        ds = fstart(spec, dn)
        for j in range(w):
            dom = level_names(spec, dn)
            # position j holds trial t-(w-1-j); None is reachable when some applicable t has t-(w-1-j) < ds
            if st - (w - 1 - j) < ds:
                dom = dom + [None]
            doms.append(dom)
    return list(itertools.product(*doms))


def walk_blocks(tree):
    yield tree
    if tree["op"] == "repeat":
        yield from walk_blocks(tree["block"])
    elif tree["op"] == "merge":
        for b in tree["blocks"]:
            yield from walk_blocks(b)
    elif tree["op"] == "nest":
        yield from walk_blocks(tree["outer"])
        yield from walk_blocks(tree["inner"])


def all_constraints(tree):
    for b in walk_blocks(tree):
        for c in b.get("cons", []):
            yield c


def tree_design(tree):
    if tree["op"] == "cross":
        return list(tree["design"])
    if tree["op"] == "repeat":
        return tree_design(tree["block"])
    out = []
    subs = tree["blocks"] if tree["op"] == "merge" else [tree["outer"], tree["inner"]]
    for b in subs:
        for n in tree_design(b):
            if n not in out:
                out.append(n)
    return out


def tree_crossings(tree):
    if tree["op"] == "cross":
        return [list(c) for c in tree["crossings"] if c]
    if tree["op"] == "repeat":
        return tree_crossings(tree["block"])
    out = []
    subs = tree["blocks"] if tree["op"] == "merge" else [tree["outer"], tree["inner"]]
    for b in subs:
        out += tree_crossings(b)
    return out
