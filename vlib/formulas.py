"""Propositional formulas as JSON (["and",[..]], ["or",[..]], ["not",x], ["if",p,q], ["iff",p,q], int) with an
independent evaluator, generators, and conversion to/from sweetpea's logic namedtuples."""
import itertools


def to_sp(j):
    from sweetpea._internal.logic import And, Or, Not, If, Iff
    if isinstance(j, int):
        return j
    op = j[0]
    if op == "and":
        return And([to_sp(x) for x in j[1]])
    if op == "or":
        return Or([to_sp(x) for x in j[1]])
    if op == "not":
        return Not(to_sp(j[1]))
    if op == "if":
        return If(to_sp(j[1]), to_sp(j[2]))
    if op == "iff":
        return Iff(to_sp(j[1]), to_sp(j[2]))
    raise ValueError(op)


def from_sp(f):
    """sweetpea formula -> JSON form, by class name so that it does not depend on identity of the namedtuples."""
    if isinstance(f, bool):
        raise TypeError("bool in formula")
    if isinstance(f, int):
        return f
    n = type(f).__name__
    if n == "And":
        return ["and", [from_sp(x) for x in f.input_list]]
    if n == "Or":
        return ["or", [from_sp(x) for x in f.input_list]]
    if n == "Not":
        return ["not", from_sp(f.c)]
    if n == "If":
        return ["if", from_sp(f.p), from_sp(f.q)]
    if n == "Iff":
        return ["iff", from_sp(f.p), from_sp(f.q)]
    raise TypeError("not a formula node: %r" % (f,))


def ev(j, a):
    """a: dict var -> bool"""
    if isinstance(j, int):
        return a[j] if j > 0 else not a[-j]
    op = j[0]
    if op == "and":
        return all(ev(x, a) for x in j[1])
    if op == "or":
        return any(ev(x, a) for x in j[1])
    if op == "not":
        return not ev(j[1], a)
    if op == "if":
        return (not ev(j[1], a)) or ev(j[2], a)
    if op == "iff":
        return ev(j[1], a) == ev(j[2], a)
    raise ValueError(op)


def vars_of(j):
    if isinstance(j, int):
        return {abs(j)}
    op = j[0]
    if op in ("and", "or"):
        s = set()
        for x in j[1]:
            s |= vars_of(x)
        return s
    if op == "not":
        return vars_of(j[1])
    return vars_of(j[1]) | vars_of(j[2])


def size(j):
    if isinstance(j, int):
        return 1
    op = j[0]
    if op in ("and", "or"):
        return 1 + sum(size(x) for x in j[1])
    if op == "not":
        return 1 + size(j[1])
    return 1 + size(j[1]) + size(j[2])


def as_clauses(j):
    """JSON formula in CNF shape (and of (or of literals | literal | not literal)) -> clause list, else None."""
    def lit(x):
        if isinstance(x, int):
            return x
        if x[0] == "not" and isinstance(x[1], int):
            return -x[1]
        return None
    if isinstance(j, int) or j[0] != "and":
        return None
    out = []
    for c in j[1]:
        l = lit(c)
        if l is not None:
            out.append([l])
            continue
        if isinstance(c, int) or c[0] != "or":
            return None
        cl = []
        for x in c[1]:
            l = lit(x)
            if l is None:
                return None
            cl.append(l)
        out.append(cl)
    return out


def gen_random(rng, depth, nv, share=None):
    """Random formula; `share` is a list collecting subformulas for reuse (shared subtrees)."""
    if share is None:
        share = []
    if depth == 0 or rng.random() < 0.2:
        v = rng.randint(1, nv)
        return v if rng.random() < 0.65 else -v
    if share and rng.random() < 0.15:
        return rng.choice(share)
    k = rng.choice(["not", "and", "or", "if", "iff", "and", "or"])
    if k == "not":
        f = ["not", gen_random(rng, depth - 1, nv, share)]
    elif k in ("and", "or"):
        n = rng.choice([0, 1, 2, 2, 3, 4])
        xs = [gen_random(rng, depth - 1, nv, share) for _ in range(n)]
        if xs and rng.random() < 0.25:
            xs.append(xs[0])
        f = [k, xs]
    else:
        f = [k, gen_random(rng, depth - 1, nv, share), gen_random(rng, depth - 1, nv, share)]
    share.append(f)
    return f


def enum_depth1(nv):
    lits = [s * v for v in range(1, nv + 1) for s in (1, -1)]
    out = list(lits)
    out += [["not", l] for l in lits]
    for op in ("and", "or"):
        out.append([op, []])
        out += [[op, [a]] for a in lits]
        out += [[op, [a, b]] for a in lits for b in lits]
    for op in ("if", "iff"):
        out += [[op, a, b] for a in lits for b in lits]
    return out


def enum_depth2_sample(nv, rng, count):
    d1 = enum_depth1(nv)
    out = []
    for _ in range(count):
        op = rng.choice(["not", "and", "or", "if", "iff"])
        if op == "not":
            out.append(["not", rng.choice(d1)])
        elif op in ("and", "or"):
            out.append([op, [rng.choice(d1) for _ in range(rng.choice([1, 2, 2, 3]))]])
        else:
            out.append([op, rng.choice(d1), rng.choice(d1)])
    return out


def all_assignments(vs):
    vs = sorted(vs)
    for bits in itertools.product([False, True], repeat=len(vs)):
        yield dict(zip(vs, bits))
