"""Reference model R (DESIGN.md §2.3): executable reading of docs/_source/api/*.rst. Imports nothing from sweetpea.

analyze(spec) -> Flat : trial count, crossings with chunk geometry, constraints with windows; or .und (reason
                        why the documentation does not pin the answer down) / .ctor_err (constructor refusal expected)
valid(spec, flat, seq) -> list of reasons (empty = valid)
enumerate_valid(spec, flat, cap, node_cap) -> list of sequences | None (too big)
multiplicity(spec, flat, seq) -> number of distinct solutions printing as seq
"""
import itertools

from . import spec as S


class Flat:
    def __init__(self):
        self.T = None
        self.design = []
        self.crossings = []   # dicts: names, S, p, q, cw, allowed{combo: weight}, sustain, W, X
        self.cons = []        # dicts: c, geo (Tb,pb), unit   (MinimumTrials removed)
        self.inherit = []     # all constraint dicts incl. MinimumTrials, for an enclosing combinator
        self.sustain = {}     # factor -> sustain count (Nest)
        self.mt = 0
        self.geo = None
        self.und = None       # validity undecided (reason)
        self.und_T = None     # even T undecided
        self.ctor_err = None  # constructor refusal expected (reason)
        self.empty = None     # no sequence by construction (reason)
        self.rcc = True
        self.excl = set()
        self.kind = None
        self.align = "equal"


# ------------------------------------------------------------------ derived values

def args_at(spec, fname, seq, t):
    f = spec["factors"][fname]
    w = f["win"][1]
    out = []
    for dn in f["deps"]:
        ds = S.fstart(spec, dn)
        for j in range(w):
            tt = t - (w - 1 - j)
            if tt < 0 or tt < ds:
                out.append(None)
            else:
                out.append(seq[dn][tt])
    return tuple(out)


def derive(spec, fname, seq, t):
    """index of the accepting level, None if no level accepts"""
    f = spec["factors"][fname]
    return f["table"].get(S.akey(args_at(spec, fname, seq, t)))


def order_factors(spec, names):
    return sorted(names, key=lambda n: S.depth(spec, n))


# ------------------------------------------------------------------ crossing sizes

def combos_info(spec, design, crossing, excl):
    """-> (allowed {combo tuple: weight}, W, X) for one crossing, per the documented exclusion rules."""
    F = spec["factors"]
    basics = [n for n in order_factors(spec, design) if F[n]["kind"] == "basic"]
    simple_derived = [n for n in order_factors(spec, design)
                      if F[n]["kind"] == "derived" and not S.is_complex(spec, n)]
    lvls = [F[n]["levels"] for n in crossing]
    allowed = {}
    W = X = 0
    for combo in itertools.product(*lvls):
        w = 1
        for _, lw in combo:
            w *= lw
        W += w
        names = {n: l[0] for n, l in zip(crossing, combo)}
        bad = any((n, names[n]) in excl for n in crossing)
        if not bad:
            free = [n for n in basics if n not in names]
            ok = False
            for asg in itertools.product(*[[l[0] for l in F[n]["levels"]] for n in free]):
                seq = {n: [v] for n, v in zip(free, asg)}
                for n in basics:
                    if n in names:
                        seq[n] = [names[n]]
                if any((n, seq[n][0]) in excl for n in basics):
                    continue
                good = True
                for n in simple_derived:
                    idx = derive(spec, n, seq, 0)
                    if idx is None:
                        good = False
                        break
                    v = F[n]["levels"][idx][0]
                    seq[n] = [v]
                    if n in names and names[n] != v:
                        good = False
                        break
                    if (n, v) in excl:
                        good = False
                        break
                if good:
                    ok = True
                    break
            bad = not ok
        if bad:
            X += w
        else:
            allowed[tuple(names[n] for n in crossing)] = w
    return allowed, W, X


# ------------------------------------------------------------------ tree -> flat

def _cons_expand(spec, cons):
    """whole-factor constraints -> one per level"""
    out = []
    for c in cons:
        if c["type"] in ("AtMostKInARow", "AtLeastKInARow", "ExactlyKInARow", "ExactlyK") and c.get("level") is None:
            for ln in S.level_names(spec, c["factor"]):
                d = dict(c)
                d["level"] = ln
                out.append(d)
        else:
            out.append(c)
    return out


def _create(spec, kind, design, raw_crossings, inherited, own_cons, rcc, mode, align, und):
    """Mirror of the documented block construction.
    raw_crossings: dicts(names, cw, sustain); inherited: constraint dicts with resolved geo; own_cons: spec cons."""
    fl = Flat()
    fl.kind = kind
    fl.align = align
    fl.design = list(design)
    fl.rcc = rcc
    fl.und = und
    F = spec["factors"]
    for n in design:
        if F[n]["kind"] == "derived":
            for d in F[n]["deps"]:
                if d not in design:
                    fl.ctor_err = "derived factor %s depends on %s which is not in the design" % (n, d)
    own = [{"c": c, "geo": None, "unit": 1} for c in _cons_expand(spec, own_cons)]
    cons = list(inherited) + own
    for c in cons:
        cc = c["c"]
        fs = cc.get("factors") or ([cc["factor"]] if cc.get("factor") else [])
        for f in fs:
            if f not in design:
                fl.ctor_err = fl.ctor_err or "constraint on factor %s which is not in the design" % f
    excl = set((c["c"]["factor"], c["c"]["level"]) for c in cons if c["c"]["type"] == "Exclude")
    fl.excl = excl
    mt = 0
    for c in cons:
        if c["c"]["type"] == "MinimumTrials":
            mt = max(mt, c["c"]["trials"] * c["unit"])
    for s in sorted({cr["sustain"] for cr in raw_crossings}):
        if mt % s:
            mt = (mt // s + 1) * s
    fl.mt = mt
    crs = []
    for cr in raw_crossings:
        names = cr["names"]
        for n in names:
            if n not in design:
                fl.ctor_err = fl.ctor_err or "crossed factor %s not in design" % n
            elif S.is_complex(spec, n) and S.stride(spec, n) > 1:
                fl.ctor_err = fl.ctor_err or "stride > 1 factor %s in crossing" % n
        if fl.ctor_err:
            return fl
        allowed, W, X = combos_info(spec, design, names, excl)
        p = max([S.fstart(spec, n) for n in names if S.is_complex(spec, n)] + [0])
        crs.append({"names": list(names), "W": W, "X": X, "S": W - X, "p": p, "cw": cr["cw"],
                    "sustain": cr["sustain"], "allowed": allowed})
        if X > 0 and rcc:
            fl.empty = "complete crossing required but combinations of weight %d are excluded/impossible" % X
        if rcc:
            # a crossed transition/window level that no argument tuple produces can occur in no trial: a complete
            # crossing (also one that is rounded up and cut) does not exist
            for n in names:
                if F[n]["kind"] == "derived" and S.is_complex(spec, n):
                    made = set(F[n]["table"].values())
                    for i, (ln, _) in enumerate(F[n]["levels"]):
                        if i not in made:
                            fl.empty = fl.empty or ("complete crossing required but level %s of %s is produced by "
                                                    "no argument tuple" % (ln, n))
        if W - X <= 0:
            fl.und_T = fl.und_T or "crossing %s has no allowed combination" % (names,)
        for (ef, el) in excl:
            if F[ef]["kind"] == "basic" and ef not in names and any(
                    F[n]["kind"] == "derived" and ef in S.basic_roots(spec, n) for n in names):
                fl.und_T = fl.und_T or ("Exclude on %s, a source of a crossed derived factor it is not crossed with "
                                        "(documentation does not say whether the crossing shrinks)" % ef)
        if cr["sustain"] > 1 and p > 0:
            fl.und_T = fl.und_T or "preamble under Nest"
    fl.crossings = crs
    if fl.und_T:
        fl.und = fl.und or fl.und_T
        return fl
    if any(cr["sustain"] > 1 for cr in crs) and any(S.is_complex(spec, n) for n in design):
        fl.und = fl.und or "complex derived factor in a nested design"
    P_crossed = max([c["p"] for c in crs] + [0])
    P_design = max([S.fstart(spec, n) for n in design if S.is_complex(spec, n)] + [0])
    if crs:
        if align == "post":
            T0 = P_crossed + max(c["S"] * c["sustain"] for c in crs)
        else:
            T0 = max((c["p"] + c["S"]) * c["sustain"] for c in crs)
    else:
        T0 = 1
    T = max(1, mt, T0)
    fl.T = T
    if align == "equal" and len(set(c["p"] for c in crs)) > 1:
        fl.ctor_err = fl.ctor_err or "EQUAL_PREAMBLE with different preamble sizes"
    if mode != "repeat":
        for c in crs:
            w = ((T // c["sustain"]) - c["p"] + c["S"] - 1) // c["S"]
            if w != c["cw"]:
                if mode == "equal":
                    fl.ctor_err = fl.ctor_err or "RepeatMode.EQUAL with different crossing sizes"
                c["cw"] = w
    for c in crs:
        if align == "post":
            c["q"] = max(P_crossed, P_design)
            if P_design > P_crossed:
                fl.und = fl.und or "POST_PREAMBLE with an uncrossed complex factor starting later than every crossed one"
        else:
            c["q"] = c["p"]
        if c["cw"] <= 0:
            fl.und = fl.und or "non-positive crossing weight"
    pb = (crs[0]["q"] * crs[0]["sustain"]) if crs else 0
    fl.geo = (T, pb)
    fl.inherit = []
    for c in cons:
        d = dict(c)
        if d["geo"] is None:
            d["geo"] = fl.geo
        fl.inherit.append(d)
    fl.cons = [c for c in fl.inherit if c["c"]["type"] != "MinimumTrials"]
    for cr in crs:
        if cr["sustain"] > 1:
            for n in cr["names"]:
                fl.sustain[n] = cr["sustain"]
    for n in design:
        if F[n]["kind"] == "basic" and any(w > 1 for _, w in F[n]["levels"]):
            inc = [n in c["names"] for c in crs]
            if any(inc) and not all(inc):
                fl.und = fl.und or "weighted factor %s in some but not all crossings" % n
    return fl


def _err(kind, msg):
    f = Flat()
    f.kind = kind
    f.ctor_err = msg
    return f


def _node(spec, tree):
    op = tree["op"]
    if op == "cross":
        ctor = tree.get("ctor", "CrossBlock")
        mode = "weight" if ctor == "CrossBlock" else tree.get("mode", "equal")
        align = "equal" if ctor == "CrossBlock" else tree.get("align", "equal")
        crossings = [c for c in tree["crossings"] if c]
        raw = [{"names": list(c), "cw": 1, "sustain": 1} for c in crossings]
        return _create(spec, ctor, tree["design"], raw, [], tree["cons"], tree.get("rcc", True), mode, align, None)
    if op == "repeat":
        sf = _node(spec, tree["block"])
        if sf.ctor_err or sf.und_T:
            return sf
        if sf.kind not in ("CrossBlock", "MultiCrossBlock", "Merge"):
            return _err("Repeat", "Repeat needs a MultiCrossBlock")
        raw = [{"names": c["names"], "cw": c["cw"], "sustain": c["sustain"]} for c in sf.crossings]
        und = sf.und
        if any(c["type"] == "Exclude" for c in tree["cons"]):
            und = und or "Exclude given to Repeat (documented as not allowed)"
        return _create(spec, "Repeat", sf.design, raw, sf.inherit, tree["cons"], sf.rcc, "repeat", "equal", und)
    if op == "merge":
        subs = [_node(spec, b) for b in tree["blocks"]]
        for s in subs:
            if s.ctor_err or s.und_T:
                return s
        align = tree.get("align") or subs[0].align
        # a block with a single crossing (a CrossBlock) has nothing to align by itself: its default alignment
        # does not clash with the alignment given to the Merge
        if any(s.align != align and not (s.align == "equal" and len(s.crossings) <= 1) for s in subs):
            return _err("Merge", "Blocks have different alignments")
        design, raw, inherited, und = [], [], [], None
        for s in subs:
            und = und or s.und
            for n in s.design:
                if n not in design:
                    design.append(n)
            raw += [{"names": c["names"], "cw": c["cw"], "sustain": c["sustain"]} for c in s.crossings]
            inherited += s.inherit
        mode = tree.get("mode", "repeat")
        if mode != "repeat" and any(c["c"]["type"] not in ("MinimumTrials", "Exclude") for c in inherited):
            und = und or "WEIGHT/EQUAL-mode merge of blocks that carry their own constraints"
        seen = set()
        for r in raw:
            for n in r["names"]:
                if n in seen:
                    und = und or "factor %s in two crossings of a merge" % n
                seen.add(n)
        return _create(spec, "Merge", design, raw, inherited, tree["cons"], all(s.rcc for s in subs), mode, align, und)
    if op == "nest":
        of = _node(spec, tree["outer"])
        inf = _node(spec, tree["inner"])
        for s in (of, inf):
            if s.ctor_err or s.und_T:
                return s
        und = of.und or inf.und
        for c in of.crossings:
            for ic in inf.crossings:
                if set(c["names"]) & set(ic["names"]):
                    return _err("Nest", "Factor cannot be in crossing for both outer and inner blocks")
        align = of.align
        if align != inf.align:
            if align == "equal" and len(of.crossings) == 1:
                align = inf.align
            elif inf.align == "equal" and len(inf.crossings) == 1:
                pass
            else:
                return _err("Nest", "Outer and inner blocks cannot have different alignment")
        design = list(of.design)
        for n in inf.design:
            if n not in design:
                design.append(n)
        inner_pre = inf.geo[1]
        inner_len = inf.T - inner_pre
        if inner_pre or any(c["p"] for c in of.crossings):
            und = und or "Nest with preamble trials"
        crossed_outer = set(n for c in of.crossings for n in c["names"])
        for n in of.design:
            if n not in crossed_outer and n not in inf.design:
                und = und or "Nest whose outer block has uncrossed factors"
        raw = [{"names": c["names"], "cw": c["cw"], "sustain": c["sustain"] * inner_len} for c in of.crossings]
        raw += [{"names": c["names"], "cw": c["cw"], "sustain": c["sustain"]} for c in inf.crossings]
        inherited = []
        for c in of.inherit:
            d = dict(c)
            d["unit"] = d["unit"] * inner_len
            if d["c"]["type"] in ("AtMostKInARow", "AtLeastKInARow", "ExactlyKInARow"):
                und = und or "run-length constraint on the outer block of a Nest"
            inherited.append(d)
        inherited += inf.inherit
        return _create(spec, "Nest", design, raw, inherited, tree["cons"], of.rcc and inf.rcc, "repeat", align, und)
    raise ValueError(op)


def analyze(spec):
    fl = _node(spec, spec["block"])
    if fl.ctor_err or fl.und_T:
        return fl
    T = fl.T
    F = spec["factors"]
    for c in fl.cons:
        Tb, pb = c["geo"]
        u = c["unit"]
        ty = c["c"]["type"]
        if ty == "Exclude":
            continue
        if T % u != 0 or Tb - pb <= 0 or (T // u - pb) % (Tb - pb) != 0:
            fl.und = fl.und or "partial last repetition of a block-scoped constraint window"
        if ty in ("AtMostKInARow", "AtLeastKInARow", "ExactlyKInARow") and S.stride(spec, c["c"]["factor"]) > 1:
            fl.und = fl.und or "run-length constraint on a stride > 1 factor"
        if ty == "LatinSquare":
            fl.und = fl.und or "LatinSquare (only necessary conditions documented)"
        if ty == "Sequential":
            f = c["c"]["factor"]
            if F[f]["kind"] != "basic":
                fl.und = fl.und or "Sequential on a derived factor"
            if any(w > 1 for _, w in F[f]["levels"]):
                fl.ctor_err = fl.ctor_err or "Sequential with weighted levels"
            if (Tb, pb) != fl.geo or u != 1:
                if not (fl.kind == "Nest" and u > 1):
                    fl.und = fl.und or "Sequential inside a repeated block"
            if fl.kind in ("Repeat", "Merge"):
                L = len(F[f]["levels"])
                # the documentation does not say whether the level order restarts with each repetition
                fl.und = fl.und or "Sequential in a repeated/merged block"
    for cr in fl.crossings:
        # a crossing repeated with a partial trailing chunk under Repeat/Merge is documented ("only the first T")
        pass
    return fl


# ------------------------------------------------------------------ constraint semantics

def run_lengths(vals, level):
    runs = []
    c = 0
    for v in vals:
        if v == level:
            c += 1
        else:
            if c:
                runs.append(c)
            c = 0
    if c:
        runs.append(c)
    return runs


def con_ok(spec, c, vals, pre=0):
    """vals = the constrained factor's values restricted to one window (collapsed by unit)."""
    ty = c["type"]
    lv = c.get("level")
    n = len(vals)
    if ty == "Pin":
        i = c["index"]
        t = i if i >= 0 else n + i
        return 0 <= t < n and vals[t] == lv
    if ty == "AtMostKInARow":
        return all(r <= c["k"] for r in run_lengths(vals, lv))
    if ty == "AtLeastKInARow":
        return all(r >= c["k"] for r in run_lengths(vals, lv))
    if ty == "ExactlyKInARow":
        return all(r == c["k"] for r in run_lengths(vals, lv))
    if ty == "ExactlyK":
        return sum(1 for v in vals if v == lv) == c["k"]
    if ty == "Exclude":
        return lv not in vals
    if ty == "Sequential":
        names = S.level_names(spec, c["factor"])
        return all(vals[t] == names[(t - pre) % len(names)] for t in range(pre, n))
    raise ValueError(ty)


def windows(T, geo):
    Tb, pb = geo
    res = []
    st = 0
    while st < T - pb:
        res.append((st, st + Tb))
        st += Tb - pb
    return res


def check_constraints(spec, fl, seq):
    """-> list of violated constraint descriptions (only call when fl.und is None)"""
    bad = []
    for c in fl.cons:
        cc = c["c"]
        if cc["type"] == "LatinSquare":
            continue
        u = c["unit"]
        vals_all = seq[cc["factor"]][::u]
        L = len(vals_all)
        if cc["type"] == "Exclude":
            if cc["level"] in seq[cc["factor"]]:
                bad.append(cc)
            continue
        pre = 0
        if cc["type"] == "Sequential":
            pre = _factor_preamble(fl, cc["factor"])
        for (a, b) in windows(L, c["geo"]):
            if b > L:
                bad.append(dict(cc, problem="window beyond the sequence"))
                break
            if not con_ok(spec, cc, vals_all[a:b], pre):
                bad.append(cc)
                break
    return bad


def _factor_preamble(fl, fname):
    for cr in fl.crossings:
        if fname in cr["names"]:
            return cr["q"]
    return 0


def check_crossings(spec, fl, seq, upto=None):
    """upto = number of trials filled so far (prefix check) or None for the complete sequence."""
    T = fl.T
    t_end = T if upto is None else upto
    for cr in fl.crossings:
        u = cr["sustain"]
        names = cr["names"]
        allow = cr["allowed"]
        cw = cr["cw"]
        L = cr["S"] * cw * u           # chunk length in trials
        st = cr["q"] * u
        if u > 1:
            for t in range(0, t_end):
                if t % u:
                    for n in names:
                        if seq[n][t] != seq[n][t - 1]:
                            return "outer factor %s changes inside a nested run at trial %d" % (n, t)
        while st < t_end:
            en = min(st + L, T)
            hi = min(en, t_end)
            cnt = {}
            for t in range(st, hi, u):
                k = tuple(seq[n][t] for n in names)
                cnt[k] = cnt.get(k, 0) + 1
            for k, v in cnt.items():
                if k not in allow:
                    return "combination %s of crossing %s is excluded/impossible" % (k, names)
                if v > allow[k] * cw:
                    return "combination %s occurs %d times in trials [%d,%d) (allowed %d)" % (k, v, st, en, allow[k] * cw)
            if hi == en and en - st == L:
                for k, w in allow.items():
                    if cnt.get(k, 0) != w * cw:
                        return "combination %s occurs %d times in full chunk [%d,%d), expected %d" % (
                            k, cnt.get(k, 0), st, en, w * cw)
            st = en
    return None


def valid(spec, fl, seq):
    """Reasons why seq (dict factor name -> list of level names / '') is not a valid sequence of the design."""
    F = spec["factors"]
    reasons = []
    T = fl.T
    for n in fl.design:
        if n not in seq:
            reasons.append("factor %s missing" % n)
        elif len(seq[n]) != T:
            reasons.append("factor %s has %d entries, documented trial count is %d" % (n, len(seq[n]), T))
    extra = [k for k in seq if k not in fl.design]
    if extra:
        reasons.append("unexpected keys %s" % extra)
    if reasons:
        return reasons
    if fl.empty:
        return ["design has no valid sequence: " + fl.empty]
    for n in fl.design:
        names = S.level_names(spec, n)
        for t in range(T):
            v = seq[n][t]
            if F[n]["kind"] == "basic":
                if v not in names:
                    reasons.append("trial %d: %r is not a level of %s" % (t, v, n))
            else:
                if S.applies(spec, n, t):
                    idx = derive(spec, n, seq, t)
                    want = F[n]["levels"][idx][0] if idx is not None else None
                    if v != want:
                        reasons.append("trial %d: derived factor %s is %r, derivation gives %r" % (t, n, v, want))
                else:
                    if v != "":
                        reasons.append("trial %d: derived factor %s has level %r where it does not apply" % (t, n, v))
        if len(reasons) > 3:
            return reasons
    if reasons:
        return reasons
    r = check_crossings(spec, fl, seq)
    if r:
        reasons.append("crossing: " + r)
    for c in check_constraints(spec, fl, seq):
        reasons.append("constraint violated: %s" % ({k: v for k, v in c.items() if k != "share"},))
    return reasons


def necessary_only(spec, fl, seq):
    """Checks that hold under every reading (used where fl.und is set): lengths, level membership, derivations,
    Exclude."""
    F = spec["factors"]
    reasons = []
    T = fl.T
    for n in fl.design:
        if n not in seq:
            reasons.append("factor %s missing" % n)
        elif T is not None and len(seq[n]) != T:
            reasons.append("factor %s has %d entries, documented trial count is %d" % (n, len(seq[n]), T))
    extra = [k for k in seq if k not in fl.design]
    if extra:
        reasons.append("unexpected keys %s" % extra)
    if reasons:
        return reasons
    n_tr = len(seq[fl.design[0]]) if fl.design else 0
    sustained = bool(fl.sustain)
    for n in fl.design:
        names = S.level_names(spec, n)
        for t in range(n_tr):
            v = seq[n][t]
            if F[n]["kind"] == "basic":
                if v not in names:
                    reasons.append("trial %d: %r is not a level of %s" % (t, v, n))
            elif not sustained:
                if S.applies(spec, n, t):
                    idx = derive(spec, n, seq, t)
                    want = F[n]["levels"][idx][0] if idx is not None else None
                    if v != want:
                        reasons.append("trial %d: derived factor %s is %r, derivation gives %r" % (t, n, v, want))
                elif v != "":
                    reasons.append("trial %d: derived factor %s has level %r where it does not apply" % (t, n, v))
        if len(reasons) > 3:
            break
    for (f, l) in fl.excl:
        if f in seq and l in seq[f]:
            reasons.append("excluded level %s:%s occurs" % (f, l))
    reasons += latin_necessary(spec, fl, seq)
    return reasons


def latin_necessary(spec, fl, seq):
    """What the documentation states about LatinSquare(factors): with N = the largest number of levels, every N
    trials (counted from the factors' preamble) include every level of every factor in `factors`; in particular the
    levels of an N-level factor are all different within such a segment. Only full segments of a constraint that
    spans the whole sequence are judged."""
    out = []
    for c in fl.cons:
        cc = c["c"]
        if cc["type"] != "LatinSquare" or c["unit"] != 1 or c["geo"] != fl.geo or fl.sustain:
            continue
        fs = cc["factors"]
        if any(f not in seq for f in fs):
            continue
        N = max(len(spec["factors"][f]["levels"]) for f in fs)
        pre = _factor_preamble(fl, fs[0])
        T = len(seq[fs[0]])
        st = pre
        while st + N <= T:
            for f in fs:
                seg = seq[f][st:st + N]
                lv = S.level_names(spec, f)
                if set(seg) != set(lv):
                    out.append("LatinSquare: trials [%d,%d) show levels %s of %s, every level %s must occur" % (st, st + N, seg, f, lv))
                    return out
            st += N
    return out


def multiplicity(spec, fl, seq):
    """Number of distinct solutions that print as seq: copies of weighted levels of basic factors in no crossing."""
    F = spec["factors"]
    crossed = set(n for c in fl.crossings for n in c["names"])
    m = 1
    for n in fl.design:
        if F[n]["kind"] == "basic" and n not in crossed:
            wt = dict((l, w) for l, w in F[n]["levels"])
            for v in seq[n]:
                m *= wt[v]
    return m


# ------------------------------------------------------------------ enumeration

class TooBig(Exception):
    pass


def enumerate_valid(spec, fl, cap=20000, node_cap=300000):
    """All valid sequences (by level names). None if the search exceeds its budget. Requires fl.und is None."""
    if fl.empty:
        return []
    F = spec["factors"]
    T = fl.T
    order = order_factors(spec, fl.design)
    basics = [n for n in order if F[n]["kind"] == "basic"]
    derived = [n for n in order if F[n]["kind"] == "derived"]
    excl = fl.excl
    out = []
    nodes = [0]
    seq = {n: [] for n in order}
    atmost = [c for c in fl.cons if c["c"]["type"] == "AtMostKInARow" and c["unit"] == 1 and c["geo"] == fl.geo]
    pins = []
    for c in fl.cons:
        if c["c"]["type"] == "Pin" and c["unit"] == 1 and c["geo"] == fl.geo:
            i = c["c"]["index"]
            t = i if i >= 0 else T + i
            if 0 <= t < T:
                pins.append((t, c["c"]["factor"], c["c"]["level"]))
            else:
                return []
    seqs = [c for c in fl.cons if c["c"]["type"] == "Sequential" and c["unit"] == 1]
    choices = {}
    for n in basics:
        choices[n] = [l[0] for l in F[n]["levels"] if (n, l[0]) not in excl]

    def rec(t):
        nodes[0] += 1
        if nodes[0] > node_cap or len(out) > cap:
            raise TooBig()
        if t == T:
            if not check_constraints(spec, fl, seq):
                out.append({n: list(v) for n, v in seq.items()})
            return
        doms = []
        for n in basics:
            u = fl.sustain.get(n, 1)
            if u > 1 and t % u:
                doms.append([seq[n][t - 1]])
            else:
                doms.append(choices[n])
        for asg in itertools.product(*doms):
            for n, v in zip(basics, asg):
                seq[n].append(v)
            good = True
            added = []
            for n in derived:
                if S.applies(spec, n, t):
                    idx = derive(spec, n, seq, t)
                    if idx is None:
                        good = False
                        v = "?"
                    else:
                        v = F[n]["levels"][idx][0]
                else:
                    v = ""
                seq[n].append(v)
                added.append(n)
                if (n, v) in excl:
                    good = False
                if not good:
                    break
            if good:
                for (pt, pf, pl) in pins:
                    if pt == t and seq[pf][t] != pl:
                        good = False
                        break
            if good:
                good = check_crossings(spec, fl, seq, t + 1) is None
            if good:
                for c in atmost:
                    cc = c["c"]
                    if any(r > cc["k"] for r in run_lengths(seq[cc["factor"]], cc["level"])):
                        good = False
                        break
            if good:
                for c in seqs:
                    cc = c["c"]
                    pre = _factor_preamble(fl, cc["factor"])
                    if t >= pre:
                        names = S.level_names(spec, cc["factor"])
                        u = c["unit"]
                        if seq[cc["factor"]][t] != names[((t // u) - pre) % len(names)] and c["geo"] == fl.geo and u == 1:
                            good = False
                            break
            if good:
                rec(t + 1)
            for n in added:
                seq[n].pop()
            for n in basics:
                seq[n].pop()
    try:
        rec(0)
    except TooBig:
        return None
    return out
