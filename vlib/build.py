"""spec -> fresh sweetpea objects. Every call creates new Factor/Level/Constraint objects unless a pool is given."""
import json

from . import spec as S


class PredicateDomainError(Exception):
    """A derived-level predicate was called with an argument tuple outside its documented domain."""


class Pool:
    """Objects built from one spec; reused across blocks only when a check wants shared objects (C18)."""

    def __init__(self, spec, strict=True):
        self.spec = spec
        self.factors = {}
        self.cons_cache = {}
        self.strict = strict
        self.pred_calls = 0
        self.pred_domain_errors = []
        self._build_factors()

    def _pred(self, fname, li):
        f = self.spec["factors"][fname]
        w = f["win"][1]
        table = f["table"]
        table2 = f.get("table2") or {}
        pool = self

        def pred(*args):
            pool.pred_calls += 1
            try:
                if w == 1:
                    tup = tuple(args)
                else:
                    tup = tuple(a[j - (w - 1)] for a in args for j in range(w))
                key = json.dumps(list(tup))
            except Exception as e:
                pool.pred_domain_errors.append((fname, repr(args)[:200]))
                raise PredicateDomainError("%s: malformed predicate arguments %r (%s)" % (fname, args, e))
            if key not in table:
                pool.pred_domain_errors.append((fname, key))
                if pool.strict:
                    raise PredicateDomainError("%s: predicate called with undocumented arguments %s" % (fname, key))
                return False
            return table[key] == li or table2.get(key) == li
        pred.__name__ = "pred_%s_%d" % (fname, li)
        return pred

    def _build_factors(self):
        import sweetpea as sp
        spec = self.spec
        for n in spec["order"]:
            f = spec["factors"][n]
            if f["kind"] == "basic":
                self.factors[n] = sp.Factor(n, [sp.Level(l, w) if w != 1 else l for l, w in f["levels"]])
                continue
            ty, w, s, a = f["win"]
            deps = [self.factors[d] for d in f["deps"]]
            lvls = []
            for li, (ln, lw) in enumerate(f["levels"]):
                if f.get("else") == li:
                    lvls.append(sp.ElseLevel(ln, lw) if lw != 1 else sp.ElseLevel(ln))
                    continue
                p = self._pred(n, li)
                if ty == "within":
                    win = sp.WithinTrial(p, deps)
                elif ty == "transition":
                    win = sp.Transition(p, deps)
                else:
                    win = sp.Window(p, deps, w, s, a)
                lvls.append(sp.DerivedLevel(ln, win, lw) if lw != 1 else sp.DerivedLevel(ln, win))
            self.factors[n] = sp.Factor(n, lvls)

    def constraint(self, c, shared_key=None):
        """Builds a constraint object; with shared_key the same object is returned for the same key."""
        import sweetpea as sp
        if shared_key is not None and shared_key in self.cons_cache:
            return self.cons_cache[shared_key]
        ty = c["type"]
        if ty == "MinimumTrials":
            o = sp.MinimumTrials(c["trials"])
        elif ty == "Sequential":
            o = sp.Sequential(self.factors[c["factor"]])
        elif ty == "LatinSquare":
            o = sp.LatinSquare([self.factors[n] for n in c["factors"]])
        else:
            fobj = self.factors[c["factor"]]
            tgt = fobj if c.get("level") is None else (fobj, c["level"])
            if ty == "Exclude":
                o = sp.Exclude(tgt)
            elif ty == "Pin":
                o = sp.Pin(c["index"], tgt)
            else:
                o = getattr(sp, ty)(c["k"], tgt)
        if shared_key is not None:
            self.cons_cache[shared_key] = o
        return o

    def block(self, tree, share_constraints=False, path="r"):
        import sweetpea as sp
        modes = {"weight": sp.RepeatMode.WEIGHT, "repeat": sp.RepeatMode.REPEAT, "equal": sp.RepeatMode.EQUAL}
        aligns = {"equal": sp.AlignmentMode.EQUAL_PREAMBLE, "post": sp.AlignmentMode.POST_PREAMBLE,
                  "parallel": sp.AlignmentMode.PARALLEL_START}
        if tree.get("as_str"):
            # the documented string spellings ('weight' / 'repeat' / 'equal', 'equal preamble' / ...)
            modes = {"weight": "weight", "repeat": "repeat", "equal": "equal"}
            aligns = {"equal": "equal preamble", "post": "post preamble", "parallel": "parallel start"}

        def cons(lst):
            out = []
            for i, c in enumerate(lst):
                key = c.get("share") if share_constraints else None
                out.append(self.constraint(c, key))
            if share_constraints and lst and all(c.get("share") for c in lst):
                # a user who shares constraint objects shares the *list* holding them as well: blocks with the same
                # shared constraints receive the same Python list object
                if not hasattr(self, "list_cache"):
                    self.list_cache = {}
                out = self.list_cache.setdefault(tuple(c["share"] for c in lst), out)
            return out
        op = tree["op"]
        if op == "cross":
            d = [self.factors[n] for n in tree["design"]]
            if tree.get("ctor", "CrossBlock") == "CrossBlock":
                return sp.CrossBlock(d, [self.factors[n] for n in tree["crossings"][0]], cons(tree["cons"]),
                                     tree.get("rcc", True))
            return sp.MultiCrossBlock(d, [[self.factors[n] for n in c] for c in tree["crossings"]],
                                      cons(tree["cons"]), tree.get("rcc", True),
                                      modes[tree.get("mode", "equal")], aligns[tree.get("align", "equal")])
        if op == "repeat":
            return sp.Repeat(self.block(tree["block"], share_constraints, path + "b"), cons(tree["cons"]))
        if op == "merge":
            kw = {}
            if tree.get("align"):
                kw["alignment"] = aligns[tree["align"]]
            subs = [self.block(b, share_constraints, path + str(i)) for i, b in enumerate(tree["blocks"])]
            if share_constraints and not tree["cons"]:
                # no constraints: leave the argument out, as the documentation's examples do (library default)
                return sp.Merge(subs, mode=modes[tree.get("mode", "repeat")], **kw)
            return sp.Merge(subs, cons(tree["cons"]), modes[tree.get("mode", "repeat")], **kw)
        if op == "nest":
            kw = {}
            if tree.get("align"):
                kw["alignment"] = aligns[tree["align"]]
            o_, i_ = self.block(tree["outer"], share_constraints, path + "o"), self.block(tree["inner"], share_constraints, path + "i")
            if share_constraints and not tree["cons"]:
                return sp.Nest(o_, i_, **kw)
            return sp.Nest(o_, i_, cons(tree["cons"]), **kw)
        raise ValueError(op)


def build(spec, strict=True):
    """-> (block, pool) from entirely fresh objects."""
    pool = Pool(spec, strict)
    return pool.block(spec["block"]), pool
