"""Appended generator classes (added after vlib/gen.py was frozen).

Each check appends these to the END of its own case list (`appended(...)`), with their own RNG streams, so every
earlier case keeps its identity and its replay id. They were written after the third round of seeded changes
(DESIGN.md section 7) showed which conjunctions the frozen classes reach too rarely:

  A1 multicross_preambles  - MultiCrossBlock / Merge whose crossings have DIFFERENT preambles (a transition factor
                             crossed in one of them), alignment post / parallel spelled out, every repeat mode,
                             the crossing with the larger preamble first or last, the larger crossing with or
                             without the preamble
  A2 preamble_constraints  - one crossing with a crossed transition/window factor (preamble) together with block-
                             scoped Pin / AtLeastKInARow / ExactlyKInARow / ExactlyK constraints, plain or repeated
  A3 nest_outer            - Nest whose OUTER block carries Pin (negative indices too) / ExactlyK / run-length
                             constraints, a Nest-level MinimumTrials that is not a multiple of the inner length,
                             optionally nested twice
  A4 weighted_leftover     - weighted crossing x crossed within-trial derived factor that reads an uncrossed factor,
                             MinimumTrials chosen so that the leftover round has exactly as many trials as there are
                             distinct combinations (or one more / one less)
  A5 colliding_names       - factors that share their level NAMES, with the same constraint type and k on both
                             (constraints that print alike), and Pin pairs on the first and last trial
  A7 within_x_transition   - crossing of a within-trial derived factor over uncrossed sources with a transition
                             factor, unweighted (RandomGen's draw tree: completions of uncrossed sources x preamble)
  A8 repeat_weighted_leftover - Repeat of a block crossing only a weighted within-trial derived factor over an
                             evenly split uncrossed factor; leftover round of (about) the number of distinct
                             combinations
  A6 nest_outer_transition - Nest whose outer block crosses a transition factor (sustained preamble), its source
                             crossed with it or not, explicit alignment, constraints on either block
"""
import json
import random

from . import gen, spec as S


def _new():
    return {"factors": {}, "order": [], "block": None}


def _add_basic(rng, spec, name, i, nl=None, weights=False):
    spec["factors"][name] = gen._basic(rng, i, weights, nl=nl)
    spec["order"].append(name)


def _transition(rng, spec, name, dep, balanced=True):
    """transition factor over one basic factor; balanced = 'same'/'different' (every combination with the factor
    itself is producible), otherwise a random table"""
    f = gen.add_derived(rng, spec, name, "transition", deps=[dep], else_level=False)
    if balanced:
        f["levels"] = f["levels"][:2]
        for k in list(f["table"]):
            a = json.loads(k)
            f["table"][k] = 0 if a[0] == a[1] else 1
        f["else"] = None
    return f


def _cross(design, crossings, cons, ctor="CrossBlock", rcc=True, mode="weight", align="equal", as_str=False):
    b = {"op": "cross", "design": design, "crossings": crossings, "cons": cons, "rcc": rcc, "mode": mode,
         "align": align, "ctor": ctor}
    if as_str:
        b["as_str"] = True
    return b


# A1 ---------------------------------------------------------------------------------------------------
def multicross_preambles(rng):
    spec = _new()
    _add_basic(rng, spec, "A", 0, nl=2)
    _add_basic(rng, spec, "B", 1, nl=rng.choice([2, 2, 2, 3]))
    if rng.random() < 0.25:
        _add_basic(rng, spec, "C", 2, nl=2)
    _transition(rng, spec, "Tr", "A", balanced=rng.random() < 0.7)
    names = list(spec["order"])
    shape = rng.choice(["tr_alone", "tr_with_source", "tr_with_other"])
    if shape == "tr_alone":
        c_pre = ["Tr"]
    elif shape == "tr_with_source":
        c_pre = ["A", "Tr"]
    else:
        c_pre = ["B", "Tr"]
    rest = [n for n in names if n not in c_pre and n != "Tr"]
    rng.shuffle(rest)
    c_plain = rest[:rng.choice([1, 1, 2])] if rest else ["A"]
    if not rest:
        # a basic factor may be shared between crossings
        c_plain = ["A"] if "A" not in c_pre else ["B"]
    crossings = [c_pre, sorted(c_plain, key=names.index)]
    if len(rest) > len(c_plain) and rng.random() < 0.3:
        crossings.append([r for r in rest if r not in c_plain][:1])
    if rng.random() < 0.5:
        crossings.reverse()          # the crossing with the preamble is not the first one
    cons = []
    if rng.random() < 0.25:
        cons.append({"type": "MinimumTrials", "trials": rng.randint(4, 7)})
    if rng.random() < 0.3:
        cons.append(gen.gen_constraint(rng, spec, [n for n in names if n != "Tr"], 5,
                                       types=["AtMostKInARow", "ExactlyK", "Pin"], boundary=False))
    mode = rng.choice(["repeat", "repeat", "repeat", "weight", "weight", "weight", "weight", "equal"])
    align = rng.choice(["post", "parallel"] * 6 + ["equal"])
    design = list(names)
    if rng.random() < 0.5:
        rng.shuffle(design)
    if rng.random() < 0.3:
        # the same thing as a Merge of CrossBlocks (each sub-block lists the whole design)
        blocks = [_cross(list(design), [c], []) for c in crossings]
        spec["block"] = {"op": "merge", "blocks": blocks, "cons": cons, "mode": mode, "align": align,
                         "as_str": rng.random() < 0.3}
    else:
        spec["block"] = _cross(design, crossings, cons, ctor="MultiCrossBlock", rcc=True, mode=mode, align=align,
                               as_str=rng.random() < 0.3)
    return spec


# A2 ---------------------------------------------------------------------------------------------------
def preamble_constraints(rng):
    spec = _new()
    _add_basic(rng, spec, "A", 0, nl=2)
    _add_basic(rng, spec, "B", 1, nl=2)
    kind = rng.choice(["transition", "transition", "window3"])
    if kind == "transition":
        _transition(rng, spec, "Tr", rng.choice(["A", "B"]), balanced=rng.random() < 0.7)
    else:
        f = gen.add_derived(rng, spec, "Tr", "window", deps=["A"], else_level=False)
        f["win"] = ["window", 3, 1, None]
        f["levels"] = f["levels"][:2]
        f["table"] = {}
        for tup in S.arg_domain(spec, "Tr"):
            f["table"][S.akey(tup)] = rng.randrange(2)
        # make both levels producible whatever the draw
        ks = sorted(f["table"])
        f["table"][ks[0]] = 0
        f["table"][ks[-1]] = 1
    names = list(spec["order"])
    dep = spec["factors"]["Tr"]["deps"][0]
    other = "B" if dep == "A" else "A"
    crossing = rng.choice([["Tr"], ["Tr"], [other, "Tr"], [dep, "Tr"]])
    crossing = sorted(crossing, key=names.index)
    p = S.fstart(spec, "Tr")
    size = 1
    for n in crossing:
        size *= len(spec["factors"][n]["levels"])
    T = p + size
    targets = ["A", "B"]
    cons = []
    for _ in range(rng.choice([1, 1, 2])):
        ty = rng.choice(["Pin", "Pin", "AtLeastKInARow", "ExactlyKInARow", "ExactlyK", "ExactlyK", "AtMostKInARow"])
        fn = rng.choice(targets)
        c = {"type": ty, "factor": fn, "level": rng.choice(spec["factors"][fn]["levels"])[0]}
        if ty == "Pin":
            c["index"] = rng.choice([0, 0, 1, -1, -1, -2, T - 1, p])
        else:
            c["k"] = rng.choice([1, 2, 2, 3]) if ty != "ExactlyK" else rng.choice([1, 2, 2, 3])
        cons.append(c)
    design = list(names)
    if rng.random() < 0.4:
        rng.shuffle(design)
    block = _cross(design, [crossing], cons)
    if rng.random() < 0.3:
        reps = 2
        spec["block"] = {"op": "repeat", "block": block,
                         "cons": [{"type": "MinimumTrials", "trials": p + size * reps}]}
    else:
        if rng.random() < 0.25:
            block["cons"] = cons + [{"type": "MinimumTrials", "trials": T + rng.randint(1, size)}]
        spec["block"] = block
    return spec


# A3 ---------------------------------------------------------------------------------------------------
def nest_outer(rng):
    spec = _new()
    _add_basic(rng, spec, "O", 0, nl=rng.choice([2, 3, 3]))
    _add_basic(rng, spec, "I", 1, nl=rng.choice([2, 2, 3]))
    free = None
    if rng.random() < 0.25:
        _add_basic(rng, spec, "C", 2, nl=2)       # uncrossed factor of the outer block: free in every trial
        free = "C"
    no = len(spec["factors"]["O"]["levels"])
    ni = len(spec["factors"]["I"]["levels"])
    ocons = []
    for _ in range(rng.choice([1, 1, 2])):
        fn = rng.choice(["O", "O", free] if free else ["O"])
        ty = rng.choice(["Pin"] * 6 + ["ExactlyK"] * 3 + ["AtMostKInARow", "AtLeastKInARow", "ExactlyKInARow"])
        c = {"type": ty, "factor": fn, "level": rng.choice(spec["factors"][fn]["levels"])[0]}
        if ty == "Pin":
            c["index"] = rng.choice([0, 1, -1, -1, -2, no - 1, -no])
        else:
            c["k"] = rng.choice([1, 1, 2])
        ocons.append(c)
    if rng.random() < 0.2:
        ocons.append({"type": "MinimumTrials", "trials": no + rng.randint(1, no)})
    outer = _cross(["O"] + ([free] if free else []), [["O"]], ocons)
    icons = []
    if rng.random() < 0.25:
        icons.append({"type": "Pin", "factor": "I", "level": spec["factors"]["I"]["levels"][0][0],
                      "index": rng.choice([0, -1])})
    inner = _cross(["I"], [["I"]], icons)
    ncons = []
    r = rng.random()
    base = no * ni
    if r < 0.5:
        # a minimum that is not a multiple of the inner length (and sometimes one that is)
        ncons.append({"type": "MinimumTrials", "trials": base + rng.choice([1, 1, ni - 1 or 1, ni, ni + 1, 2 * ni - 1])})
    if rng.random() < 0.25:
        ncons.append(gen.gen_constraint(rng, spec, ["I"] + ([free] if free else []), base,
                                        types=["AtMostKInARow", "Pin", "ExactlyK"], boundary=False))
    nest = {"op": "nest", "outer": outer, "inner": inner, "cons": ncons}
    if rng.random() < 0.2:
        _add_basic(rng, spec, "E", 3, nl=2)
        top = _cross(["E"], [["E"]], [])
        nest = {"op": "nest", "outer": top, "inner": nest, "cons": []} if rng.random() < 0.5 else \
            {"op": "nest", "outer": nest, "inner": top, "cons": []}
    spec["block"] = nest
    return spec


# A4 ---------------------------------------------------------------------------------------------------
def weighted_leftover(rng):
    spec = _new()
    _add_basic(rng, spec, "A", 0, nl=rng.choice([2, 2, 2, 3]))
    lv = spec["factors"]["A"]["levels"]
    rng.choice(lv)[1] = rng.choice([2, 2, 3])
    _add_basic(rng, spec, "B", 1, nl=rng.choice([2, 2, 3]))
    f = gen.add_derived(rng, spec, "W", "within", deps=rng.choice([["B"], ["A", "B"], ["B", "A"]]), else_level=False)
    # every level of W reachable
    ks = sorted(f["table"])
    nl = len(f["levels"])
    for i in range(nl):
        f["table"][ks[(i * len(ks)) // nl]] = i
    if rng.random() < 0.3:
        rng.choice(f["levels"])[1] = 2
    names = list(spec["order"])
    crossing = rng.choice([["A", "W"], ["A", "W"], ["W"]])
    if rng.random() < 0.35:
        # every level of W has the same number of completions by the uncrossed factor: B has 4 levels, W splits
        # them evenly and reads nothing else
        spec["factors"]["B"] = {"kind": "basic", "levels": [["b%d" % j, 1] for j in range(4)]}
        f["deps"] = ["B"]
        f["levels"] = f["levels"][:2]
        f["table"] = {S.akey(["b%d" % j]): (j // 2 if rng.random() < 0.7 else j % 2) for j in range(4)}
        f["else"] = None
        if rng.random() < 0.6:
            f["levels"][rng.randrange(2)][1] = 2
            crossing = ["W"]
            for l in spec["factors"]["A"]["levels"]:
                l[1] = 1         # nothing weighted outside the crossing: every printed sequence is one solution
    if crossing == ["W"] and all(w == 1 for _, w in f["levels"]):
        f["levels"][0][1] = 2
    distinct = 1
    size = 1
    for n in crossing:
        distinct *= len(spec["factors"][n]["levels"])
        size *= sum(w for _, w in spec["factors"][n]["levels"])
    rounds = rng.choice([0, 0, 0, 1])
    left = distinct + rng.choice([0, 0, 0, -1, 1])
    design = list(names)
    if rng.random() < 0.4:
        rng.shuffle(design)
    if rng.random() < 0.5:
        # Repeat: whole rounds of the crossing, then a leftover round
        mt = max(1, rng.choice([1, 1, 2]) * size + left)
        if mt > 9:
            mt = size + left
        spec["block"] = {"op": "repeat", "block": _cross(design, [crossing], [], rcc=True),
                         "cons": [{"type": "MinimumTrials", "trials": mt}]}
        return spec
    mt = max(1, rounds * size + left)
    cons = [{"type": "MinimumTrials", "trials": mt}]
    spec["block"] = _cross(design, [crossing], cons, rcc=rng.random() < 0.5)
    return spec


# A5 ---------------------------------------------------------------------------------------------------
def colliding_names(rng):
    """two or three basic factors with the SAME level names; constraints of the same type and k on two of them;
    Pin pairs"""
    spec = _new()
    nl = rng.choice([2, 2, 3])
    lv = ["x%d" % j for j in range(nl)]
    for i, n in enumerate(["P", "Q"] + (["R"] if rng.random() < 0.4 else [])):
        spec["factors"][n] = {"kind": "basic", "levels": [[l, 1] for l in lv]}
        spec["order"].append(n)
    names = list(spec["order"])
    if rng.random() < 0.35:
        f = gen.add_derived(rng, spec, "W", "within", deps=["P", "Q"], else_level=False)
        if rng.random() < 0.5:
            # derived level names collide with the basic ones as well
            for j, l in enumerate(f["levels"]):
                l[0] = lv[j] if j < nl else "x%d" % j
        names = list(spec["order"])
    crossing = rng.choice([["P"], ["P", "Q"], ["Q"], ["P"]])
    size = nl ** len(crossing)
    cons = []
    shape = rng.choice(["twin_runs", "twin_runs", "pin_pair", "twin_exactly", "mixed"])
    level = rng.choice(lv)
    if shape in ("twin_runs", "mixed"):
        ty = rng.choice(["AtMostKInARow", "AtMostKInARow", "ExactlyKInARow", "AtLeastKInARow"])
        k = rng.choice([1, 1, 2])
        for fn in rng.sample(["P", "Q"], 2):
            cons.append({"type": ty, "factor": fn, "level": level, "k": k})
    if shape in ("pin_pair", "mixed"):
        fn = rng.choice(["P", "Q"])
        a, b = rng.choice([(0, -1), (-1, 0), (0, 1), (1, -1)])
        cons.append({"type": "Pin", "factor": fn, "level": level, "index": a})
        cons.append({"type": "Pin", "factor": fn if rng.random() < 0.6 else ("Q" if fn == "P" else "P"),
                     "level": level, "index": b})
    if shape == "twin_exactly":
        k = rng.choice([1, 2])
        for fn in ["P", "Q"]:
            cons.append({"type": "ExactlyK", "factor": fn, "level": level, "k": k})
    if rng.random() < 0.3:
        cons.append({"type": "MinimumTrials", "trials": size + rng.randint(1, size)})
    design = list(names)
    if rng.random() < 0.4:
        rng.shuffle(design)
    spec["block"] = _cross(design, [crossing], cons)
    return spec


# A6 ---------------------------------------------------------------------------------------------------
def nest_outer_transition(rng):
    """Nest whose OUTER block crosses a transition factor (sustained preamble); the transition's source is crossed
    with it or left uncrossed; explicit alignment"""
    spec = _new()
    _add_basic(rng, spec, "A", 0, nl=2)
    _transition(rng, spec, "Tr", "A", balanced=rng.random() < 0.7)
    _add_basic(rng, spec, "S", 1, nl=2)
    ocross = rng.choice([["Tr"], ["Tr"], ["A", "Tr"]])
    odesign = ["A", "Tr"] if rng.random() < 0.6 else ["Tr", "A"]
    ocons = []
    if rng.random() < 0.3:
        ocons.append({"type": rng.choice(["AtMostKInARow", "ExactlyKInARow"]), "factor": "A",
                      "level": rng.choice(["a0", "a1"]), "k": rng.choice([1, 2])})
    icons = []
    if rng.random() < 0.3:
        icons.append({"type": "Pin", "factor": "S", "level": "b0", "index": rng.choice([0, -1])})
    outer = _cross(odesign, [ocross], ocons)
    inner = _cross(["S"], [["S"]], icons)
    spec["block"] = {"op": "nest", "outer": outer, "inner": inner, "cons": [],
                     "align": rng.choice(["post", "parallel", "post", "parallel", None])}
    return spec


# A7 ---------------------------------------------------------------------------------------------------
def within_x_transition(rng):
    """one crossing of a within-trial derived factor whose sources are outside the crossing with a transition
    factor (preamble), nothing weighted; small enough for a full draw tree"""
    spec = _new()
    _add_basic(rng, spec, "A", 0, nl=2)
    _add_basic(rng, spec, "B", 1, nl=rng.choice([2, 2, 3]))
    f = gen.add_derived(rng, spec, "W", "within", deps=rng.choice([["A", "B"], ["B"], ["B", "A"]]), else_level=False)
    f["levels"] = f["levels"][:2]
    ks = sorted(f["table"])
    for k in ks:
        f["table"][k] = rng.randrange(2)
    f["table"][ks[0]] = 0
    f["table"][ks[-1]] = 1
    _transition(rng, spec, "Tr", rng.choice(["A", "A", "B"]), balanced=rng.random() < 0.8)
    names = list(spec["order"])
    crossing = rng.choice([["W", "Tr"], ["W", "Tr"], ["Tr"], ["W"]])
    cons = []
    if rng.random() < 0.25:
        cons.append({"type": "MinimumTrials", "trials": rng.randint(4, 7)})
    if rng.random() < 0.2:
        cons.append(gen.gen_constraint(rng, spec, ["A", "B"], 5, types=["AtMostKInARow", "Pin"], boundary=False))
    design = list(names)
    if rng.random() < 0.4:
        rng.shuffle(design)
    spec["block"] = _cross(design, [crossing], cons, rcc=rng.random() < 0.6)
    return spec


# A8 ---------------------------------------------------------------------------------------------------
def repeat_weighted_leftover(rng):
    """Repeat of a block whose only crossed factor is a weighted within-trial derived factor that splits an
    uncrossed 4-level factor evenly; the leftover round is as long as the number of distinct combinations (or one
    off). Nothing weighted outside the crossing, so every printed sequence is one solution."""
    spec = _new()
    spec["factors"]["B"] = {"kind": "basic", "levels": [["b%d" % j, 1] for j in range(4)]}
    spec["order"].append("B")
    f = gen.add_derived(rng, spec, "W", "within", deps=["B"], else_level=False)
    f["levels"] = f["levels"][:2]
    f["table"] = {S.akey(["b%d" % j]): (j // 2 if rng.random() < 0.6 else j % 2) for j in range(4)}
    f["else"] = None
    f["levels"][rng.randrange(2)][1] = rng.choice([2, 2, 3])
    if rng.random() < 0.25:
        _add_basic(rng, spec, "A", 0, nl=2)
    size = sum(w for _, w in f["levels"])
    left = 2 + rng.choice([0, 0, 0, 0, -1, 1])
    mt = rng.choice([1, 1, 1, 2]) * size + left
    design = list(spec["order"])
    if rng.random() < 0.4:
        rng.shuffle(design)
    spec["block"] = {"op": "repeat", "block": _cross(design, [["W"]], [], rcc=True),
                     "cons": [{"type": "MinimumTrials", "trials": mt}]}
    return spec


KINDS = {"A8": repeat_weighted_leftover, "A7": within_x_transition, "A6": nest_outer_transition, "A1": multicross_preambles, "A2": preamble_constraints, "A3": nest_outer, "A4": weighted_leftover,
         "A5": colliding_names}
LABEL = {"A8": "A8-repeat-weighted-leftover", "A7": "A7-within-x-transition", "A6": "A6-nest-outer-transition", "A1": "A1-multicross-preambles", "A2": "A2-preamble-constraints", "A3": "A3-nest-outer",
         "A4": "A4-weighted-leftover", "A5": "A5-colliding-names"}


def appended(tier, seed, tag, kinds, n_quick, n_thorough):
    """cases (round-robin over `kinds`) to append to a check's own list"""
    n = n_thorough if tier == "thorough" else n_quick
    out = []
    for i in range(n):
        k = kinds[i % len(kinds)]
        rng = random.Random("app/%s/%s/%s/%d" % (tag, seed, k, i))
        out.append({"cls": LABEL[k], "spec": KINDS[k](rng)})
    return out
