#!/bin/sh
# usage: tools/seed_verify.sh <property id> [name]   — confirms a sub-agent's seeded change in its scratch worktree /tmp/wt/<id>
ID="$1"; NAME="${2:-$1}"; WT=/tmp/wt/$ID; OUT=/verif/seeded/$NAME
mkdir -p "$OUT"
cd "$WT" || exit 3
git diff -- sweetpea > "$OUT/patch.diff"
cp demo.py "$OUT/demo.py"; cp NOTES.md "$OUT/NOTES.md" 2>/dev/null
echo "patch lines: $(grep -c '^[+-][^+-]' $OUT/patch.diff)  files: $(git diff --stat -- sweetpea | tail -1)"
PYTHONPATH=$WT timeout 300 /venv/bin/python demo.py > /tmp/demo_with.$$ 2>&1; RC1=$?
# (no git stash: the stash is shared between worktrees and races with other users of the repository)
git apply -R "$OUT/patch.diff"
PYTHONPATH=$WT timeout 300 /venv/bin/python demo.py > /tmp/demo_without.$$ 2>&1; RC0=$?
git apply "$OUT/patch.diff"
echo "demo rc with change: $RC1 ; without: $RC0"; tail -3 /tmp/demo_with.$$ | cut -c1-300
TESTS=$(PYTHONPATH=$WT /venv/bin/python -m pytest -q -p no:cacheprovider -n 6 --timeout=900 2>&1 | tail -1)
echo "tests with change: $TESTS"
echo "$RC1 $RC0 $TESTS" > "$OUT/.confirm"
rm -f /tmp/demo_with.$$ /tmp/demo_without.$$
