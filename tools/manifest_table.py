reg("C10", "runtime monitor: exhaustive assignment sweep of the real cardinality encoders against arithmetic, via SAT calls under assumptions",
    "Every (relation, n, k, numbering variant) up to the bound is pushed through the real combine_cnf_with_requests / CNF.assert_* and all 2^n input assignments are judged against plain arithmetic, including uniqueness of the auxiliary extension. Exhaustive inside the bound (n<=7 quick, n<=13 thorough), nothing beyond.",
    "trusts pycryptosat's SAT/UNSAT answers and the harness's own counting")
reg("C11", "runtime monitor: real to_cnf_* outputs evaluated against an independent formula evaluator over all assignments",
    "All formulas of a small grammar up to depth 2 plus seeded random deep formulas with shared subtrees go through the real Tseitin/naive/switching converters; models, uniqueness of new variables and fresh ranges are compared with an independent evaluator.",
    "trusts pycryptosat and the harness evaluator; bounded formula size")
reg("C12", "runtime monitor: exhaustive input sweep of the real adder / pop-count clause builders",
    "Each clause builder is run on fresh CNF objects for every width up to the bound and every input assignment; outputs must equal the binary sum with a unique extension.",
    "trusts pycryptosat; widths bounded (5/7 bits, 9/12 pop-count inputs)")
reg("C13", "runtime monitor: images of the real unranking functions compared with brute-force generated arrangement sets",
    "For all small parameter tuples the whole index range is mapped and compared with an independently generated set; larger random tuples are sampled for legality and distinctness; memo reuse orders are varied.",
    "brute-force generators in the harness are the oracle; parameter bounds as in evidence")
reg("C28", "runtime monitor: OPB text written by the real exporter parsed by an independent parser and evaluated on all assignments against the SAT encoding",
    "Random clause sets and request lists are exported through the real combine_and_save_opb / update_file; an independent OPB evaluator is compared with the SAT encoding and with arithmetic on all 2^n assignments.",
    "Gurobi absent: acceptance of the text by Gurobi is not observed; trusts pycryptosat")
_R = "reference model R (vlib/ref.py, written from the documentation, imports nothing from sweetpea) inside its decidable region; pycryptosat/pycmsgen/pyunigen as solvers; bounded generator space (T <= 12, <= 600 solutions)"
reg("C01", "runtime monitor: sequences returned by the real SAT-based samplers and every decoded model of the compiled formula judged by an independent reference model",
    "Thousands of generated designs (all factor/window/constraint/combinator classes) are run through IterateSATGen, CMSGen, UniGen, IterateGen and UniformGen and, in addition, every projected model of build_cnf(block) is decoded with the real decoder; each sequence is judged by the reference model. Held = no invalid sequence among those observed.", _R)
reg("C02", "runtime monitor: exhausted IterateSATGen output compared as a multiset with the reference model's enumeration",
    "For each generated R-decidable design IterateSATGen is asked for more sequences than exist and its output is compared (extra / missing / multiplicity) with the independently enumerated valid set, including empty sets.", _R)
reg("C03", "runtime monitor: second-extension search on every projected solution of the real compiled formula (incremental SAT under assumptions)",
    "For each generated design the real build_cnf output is enumerated on the trial variables and each solution is tested for a second full model; full and projected counts are compared on small designs. No reference model involved.",
    "pycryptosat answers; designs bounded; up to 1500 solutions per design")
reg("C04", "runtime monitor: sequences returned by the real RandomGen judged by the reference model",
    "RandomGen is exhausted (or sampled 250 times) on generated designs emphasising its rejection paths; every returned sequence is judged by R.", _R)
reg("C06", "runtime monitor: exhausted RandomGen output and its reported solution count compared with the reference enumeration",
    "RandomGen.sample is asked for |R|+25 sequences under a CPU budget; multiset equality with R and, on no-rejection single-round designs, metrics['solution_count'] == |R|.", _R + "; a CPU-budget overrun is inconclusive for that case")
reg("C07", "runtime monitor: differential comparison of exhausted IterateSATGen and exhausted RandomGen",
    "Both real samplers are exhausted on fresh builds of the same generated design and their sets of printed sequences compared; no reference model, so R-undecided designs are covered too.",
    "compared by level names; <= 600 sequences; RandomGen under a CPU budget")
reg("C08", "runtime monitor: exception / process-death observer around synthesize_trials for four strategies",
    "Every generated accepted design is synthesized with IterateSATGen, RandomGen, CMSGen and UniGen (the latter in a forked child so that a dying interpreter is observed) with 0, 1 or 3 requested sequences; any escaping exception or death is a violation unless it matches a listed known finding.",
    "predicates of generated derived levels raise on undocumented arguments (charged to the library); native sampler hangs are inconclusive")
reg("C09", "runtime monitor: returned-list sizes and duplicate counts for request sizes around the number of solutions",
    "For small designs the three without-replacement strategies are called with 0,1,2,A-1,A,A+1,3A requested; len == min(requested, A) and per-sequence multiplicities bounded by the reference copy count; for designs with more sequences than the cap, the cap+1 returned sequences must still be pairwise distinct.", _R)
reg("C14", "runtime monitor: full variable-table consistency check and decode round trips on real blocks",
    "On every generated block the complete (trial, factor, level)->variable table is rebuilt through three public accessors, checked for injectivity/range/agreement, decode_variable is inverted, and random one-hot assignments are pushed through the real Gen.decode.",
    "applicability rule of derived factors as documented (start/stride)")
reg("C15", "runtime monitor: constructor/synthesis outcome observer for proper, overlapping and incomplete derived-level tables",
    "Generated derived factors are mutated to overlap or to leave one argument tuple uncovered (None arguments included); the constructor must raise ValueError resp. the samplers must print an error naming the factor and return []; proper tables are checked against the reference derivation.",
    "argument domain of windows as documented; flat designs only")
reg("C16", "runtime monitor: reported trial count and lengths of all returned lists compared with the documented arithmetic",
    "R's trial-count arithmetic (weights, exclusions, preambles, MinimumTrials, modes/alignments, Repeat, Nest) is compared with trials_per_sample() and with every list of every sequence returned by four strategies.", _R)
reg("C17", "runtime monitor: the real mismatch checker judged against the reference model on valid sequences and in-domain perturbations",
    "For R-decidable designs, enumerated valid sequences and systematically perturbed ones (classified by R) are given to sample_mismatch_experiment; {} iff valid, and no exception.", _R)
reg("C20", "runtime monitor: outputs of the real conversion functions compared cell by cell with an independent model, CSV files read back",
    "Synthesized experiments (including designs with hidden desugared factors) and arbitrary experiments with hostile names are converted by experiments_to_tuples / _dicts / save_experiments_csv and compared with e[f][t] for user-declared factors in design order; no foreign key or column may appear.",
    "csv module as reader; bounded experiment sizes")
reg("C21", "runtime monitor: printed tabulation parsed and compared with an independent counter",
    "tabulate_experiments is called with generated experiments, factor selections (whole crossing, subsets, permutations) and trial selections (None, subsets, repeated indices); every printed row is parsed and compared with counted frequencies and percentages.",
    "names without blanks or '|' so that the printed table parses unambiguously")
reg("C24", "runtime monitor: differential comparison of both sides of each documented combinator law on real blocks",
    "For each law both sides are built from fresh objects; constructor outcome, trials_per_sample and the exhausted IterateSATGen and RandomGen sets must agree.",
    "sets compared by level names; <= 400 sequences; no reference model")
reg("C27", "runtime monitor: recording taps at the solver boundary (file text, solver-side clauses/models, decode input, blocking-clause updates) checked by an independent strict DIMACS parser",
    "Real IterateSATGen / CMSGen / UniGen runs on generated designs are observed through proxies on pycryptosat, pycmsgen, pyunigen and on the file-handling functions; plus direct exercises of the renderers/parsers on random CNF objects.",
    "proxies forward unchanged; the DIMACS terminator kept by cryptominisat_solve is recorded, not charged")
reg("C25", "runtime monitor: statement-derived structural oracle on every sequence of exhausted Nest designs, product-construction and associativity comparisons",
    "Every sequence the real samplers return for generated Nest designs is cut into groups and judged (outer constancy, outer projection valid, each group valid for the inner block alone); exhausted sets are compared with the explicit product construction and between the two association orders.",
    "validity of a sub-block alone by the reference model; nests without preamble trials; <= 500 sequences")
reg("C26", "runtime monitor: exhausted solution sets of three builds (no constraint / constraint on the block / constraint on the combinator) compared through an independent window evaluator",
    "S1 must equal the sequences of the unconstrained set that satisfy the constraint inside every repetition window, S2 those that satisfy it over the whole sequence; Repeat (with/without preamble), Merge(REPEAT), Nest, and POST_PREAMBLE-aligned Nest (constraint on the outer / inner block) and Merge, where windows start after the common preamble.",
    "the library's unconstrained set is the universe; repetition-window geometry as documented; <= 700 sequences")
reg("C19", "runtime monitor: state snapshots around every call of random library-call histories on one block, later syntheses judged for validity",
    "Random histories of synthesize/print/tabulate/csv/convert/mismatch calls on one block (half with continuous factors); the block's observable design state is snapshotted around each call and every later synthesize_trials must return valid sequences with the first call's columns. A later exception that a fresh block reproduces is charged to C08, not here.",
    "snapshot fields: design names/order, continuous factors, crossings, trial count, constraints, errors; R for the discrete part; on the appended LatinSquare/Sequential/combinator/multi-crossing histories where R is undecided, later sequences must be among those an unused block of the same design returns with the same kind of sampler (<= 400)")
reg("C22", "runtime monitor: recording probe distributions and constraint predicates with unique values, returned sequences re-derived from their own values",
    "CustomDistribution functions are probes (unique fresh values, deterministic dependent/window functions), so each returned value identifies the call and attempt that produced it; every returned sequence is re-derived: counts, constraints at every trial, same-trial dependencies, documented windows with NaN rules, cumulative restarts, discrete part by R.",
    "probe functions deterministic in their arguments; built-in distributions observed through ranges only")
reg("C05", "runtime monitor: exhaustive walk of RandomGen's random-draw tree under a scripted replacement of random.randrange, with exact path probabilities",
    "Every leaf of the tree of draws of one real RandomGen.sample(block, 1) call is executed (odometer over recorded ranges); accepted leaves must map one-to-one onto the reference valid set, all leaves must be equally likely (exact Fractions) and their number must equal RandomGen's own exhaustion bound.",
    "reference model R; random.randrange is the only randomness; trees up to 6000 (30000 thorough) leaves; designs with weighted uncrossed factors excluded here")
reg("C23", "runtime monitor: differential comparison of a weighted design with its copy-expanded twin (exhausted solution multisets mapped back)",
    "Each weighted basic level is replaced by separately named copies (tables rewritten); the twin's exhausted sequences, mapped back, with copies of crossed levels collapsed and copies of uncrossed levels kept distinct, must equal the weighted design's multiset for IterateSATGen and RandomGen; trial counts and constructor outcomes must agree.",
    "copy semantics as documented for Level (copies are one solution only if the factor is in EVERY crossing); appended cases: weighted derived level crossed over a weighted uncrossed factor, weighted factor in only some crossings, Nest; constraints never name a weighted level directly; <= 900 twin sequences")
reg("C18", "runtime monitor: histories of block constructions from one shared object pool compared with fresh builds (solution sets, trial counts, mismatch verdicts)",
    "2-4 blocks are built in random order from ONE pool of factor and constraint objects, interleaved with synthesis calls; each block's trial count, exhausted IterateSATGen and RandomGen sets and mismatch verdicts on fixed candidates must equal those of the same block built alone from fresh objects.",
    "sets by level names; <= 300 sequences; the listed known finding absorbs only blocks whose shared constraint object was first used in an earlier block")
reg("C29", "runtime monitor: SMGen runs in a guarded child process, refusal text or returned sequences judged by the reference model",
    "Generated designs (weights, MinimumTrials, every constraint type, Repeat) are given to SMGen twice per process (reset_state), with the watchdog timer shortened in a third of the cases; the outcome must be a documented refusal or sequences that R judges valid. Searches that hit the guard are inconclusive.",
    _R + "; an unrelated crash returns no sequence and is recorded, not reported")
