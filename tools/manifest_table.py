reg("C10", "runtime monitor: exhaustive assignment sweep of the real cardinality encoders against arithmetic, via SAT calls under assumptions",
    "Every (relation, n, k, numbering variant) up to the bound is pushed through the real combine_cnf_with_requests / CNF.assert_* and all 2^n input assignments are judged against plain arithmetic, including uniqueness of the auxiliary extension. Exhaustive inside the bound (n<=7 quick, n<=13 thorough), nothing beyond.",
    "trusts pycryptosat's SAT/UNSAT answers and the harness's own counting")
reg("C11", "runtime monitor: real to_cnf_* outputs evaluated against an independent formula evaluator over all assignments",
    "All formulas of a small grammar up to depth 2 plus seeded random deep formulas with shared subtrees go through the real Tseitin/naive/switching converters; models, uniqueness of new variables and fresh ranges are compared with an independent evaluator.",
    "trusts pycryptosat and the harness evaluator; bounded formula size")
reg("C12", "runtime monitor: exhaustive input sweep of the real adder / pop-count clause builders",
    "Each clause builder is run on fresh CNF objects for every width up to the bound and every input assignment; outputs must equal the binary sum with a unique extension.",
    "trusts pycryptosat; widths bounded (5/7 bits, 9/12 pop-count inputs)")
reg("C13", "runtime monitor: images of the real unranking functions compared with brute-force generated arrangement sets",
    "For all small parameter tuples the whole index range is mapped and compared with an independently generated set; larger random tuples are sampled for legality and distinctness; memo reuse orders are varied.",
    "brute-force generators in the harness are the oracle; parameter bounds as in evidence")
reg("C28", "runtime monitor: OPB text written by the real exporter parsed by an independent parser and evaluated on all assignments against the SAT encoding",
    "Random clause sets and request lists are exported through the real combine_and_save_opb / update_file; an independent OPB evaluator is compared with the SAT encoding and with arithmetic on all 2^n assignments.",
    "Gurobi absent: acceptance of the text by Gurobi is not observed; trusts pycryptosat")
