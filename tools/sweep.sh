#!/bin/sh
# usage: tools/sweep.sh "<seeds>" <tier> <props...>   — runs checks without touching evidence, prints verdict lines
SEEDS="$1"; TIER="$2"; shift 2
for p in "$@"; do for s in $SEEDS; do
  VERIF_JOBS=${VERIF_JOBS:-8} VERIF_SEED=$s ./check $p --tier $TIER --no-evidence 2>&1 | grep -E "VIOLATION|INCONCLUSIVE|verdict=|  ->" | cut -c1-400
done; done
