"""Regenerates MANIFEST.json from the table below (development aid; the committed MANIFEST.json is what counts)."""
import json
import os

ROOT = os.path.dirname(os.path.dirname(os.path.abspath(__file__)))
BASELINE = ("cd /repo && env -u SWEETPEA_PY_VERIF /venv/bin/python -m pytest -ra -q -p no:cacheprovider "
            "--timeout=900 --continue-on-collection-errors")

# id -> (technique, level text, level note, design ref)
CHECKS = {}


def reg(pid, technique, text, note, ref=None):
    CHECKS[pid] = (technique, text, note, ref or ("DESIGN.md section 4, " + pid))


exec(open(os.path.join(ROOT, "tools", "manifest_table.py")).read())

props = [json.loads(l)["id"] for l in open(os.path.join(ROOT, "properties.jsonl"))]
na = json.load(open(os.path.join(ROOT, "tools", "not_applicable.json")))
checks = []
for pid in props:
    if pid not in CHECKS:
        continue
    tech, text, note, ref = CHECKS[pid]
    checks.append({
        "property_id": pid,
        "quick_cmd": "./check %s --tier quick" % pid,
        "thorough_cmd": "./check %s --tier thorough" % pid,
        "evidence_file": "/verif/evidence/%s.json" % pid,
        "replay_cmd_template": "./check %s --replay {path}" % pid,
        "engine": "vlib-runner",
        "level_claimed": {"category": "exploration", "text": text, "design_ref": ref},
        "level_note": note,
        "technique": tech,
    })
claimed = {c["property_id"] for c in checks}
na_list = [{"property_id": p, "reason": na.get(p, "check not built yet (work in progress): not claimed until its "
                                               "monitor has been silent on the unchanged tree over a seed sweep")}
           for p in props if p not in claimed]
m = {
    "version": 1,
    "setup_cmd": "sh ./setup.sh",
    "hooks": {"guard": "SWEETPEA_PY_VERIF", "enable": "no source hooks: every tap is installed from the harness "
              "on public functions, call-time module attributes or the external solver libraries; the runner "
              "exports SWEETPEA_PY_VERIF=1 for uniformity",
              "baseline_off_cmd": BASELINE, "source_commits": [], "add_only": True},
    "engines": [{"name": "vlib-runner", "path": "/verif/vlib/runner.py", "serves_properties": sorted(claimed),
                 "kind_free_text": "runtime monitoring: sharded workload driver + per-property oracle modules "
                                   "(vlib/props), reference model (vlib/ref.py), boundary taps (vlib/taps.py), "
                                   "known-finding classifier (vlib/findings.py)"}],
    "checks": checks,
    "notes": "Technique family: runtime monitoring. Exit 0 held / 1 VIOLATION / 2 INCONCLUSIVE (never folded). "
             "Genuine defects repaired as fix: commits in /repo or listed in known_findings.json (mechanism-keyed).",
    "not_applicable": na_list,
}
json.dump(m, open(os.path.join(ROOT, "MANIFEST.json"), "w"), indent=1)
print("claimed:", sorted(claimed))
