#!/bin/sh
# usage: tools/round4.sh <id e.g. C13d> — confirm a round-4 sub-agent change, then evaluate it at seeds 1 and 2 against its own check
ID="$1"; P=$(echo $ID | sed 's/d$//')
cd /verif
sh tools/seed_verify.sh $ID $ID > /tmp/wt/verify_$ID.log 2>&1
cat /tmp/wt/verify_$ID.log
for s in 1 2; do VERIF_JOBS=${VERIF_JOBS:-6} sh tools/matrix.sh $s $ID; done | tee /tmp/wt/matrix_$ID.log
