#!/bin/sh
# usage: tools/matrix.sh <seed> <ids...> — each seeded change against its own check; one summary line each
SEED="$1"; shift
for p in "$@"; do
  c=$(echo $p | sed "s/[bcd]$//")
  R=$(LINES_MAX=40 VERIF_JOBS=${VERIF_JOBS:-8} tools/mutant.sh seeded/$p/patch.diff $SEED $c 2>&1)
  V=$(echo "$R" | grep -c "^VIOLATION")
  L=$(echo "$R" | grep "verdict=" | sed 's/.*\(new_violations=[0-9]*\).*\(wall=[0-9.]*s\).*\(verdict=[a-zA-Z]*\)/\1 \2 \3/')
  K=$(echo "$R" | grep -m1 "^  ->" | cut -c1-140)
  echo "$p seed=$SEED violation_lines=$V $L $K"
done
