"""Calibration: three-way comparison R / IterateSATGen / RandomGen / CNF models on generated specs.
usage: calib.py <seed> <count> [classes comma separated]   (development aid, not a registered check)"""
import collections
import json
import signal
import sys

sys.path.insert(0, __import__("os").path.dirname(__import__("os").path.dirname(__import__("os").path.abspath(__file__))))
from vlib import gen, ref, observe as O, spec as S  # noqa


class TO(Exception):
    pass


def alarm(*a):
    raise TO()


signal.signal(signal.SIGALRM, alarm)
seed = int(sys.argv[1])
n = int(sys.argv[2])
classes = sys.argv[3].split(",") if len(sys.argv) > 3 else None
stats = collections.Counter()
shown = collections.Counter()


def show(tag, spec, extra):
    shown[tag] += 1
    if shown[tag] <= 2:
        s = {"block": spec["block"], "factors": {n: {k: v for k, v in f.items() if k != "table"}
                                                 for n, f in spec["factors"].items()}}
        print("##", tag, json.dumps(s))
        print("    ", extra)


def norm(seqs):
    c = collections.Counter(O.seq_key(s) for s in seqs)
    return c


for cls, spec in gen.stream(seed, n, classes):
    signal.alarm(40)
    try:
        try:
            fl = ref.analyze(spec)
        except Exception as e:
            stats[cls + " ref_exc"] += 1
            show("ref_exc", spec, repr(e))
            import traceback; traceback.print_exc()
            continue
        block, pool, err = O.construct(spec)
        if err:
            tag = "ctor:%s:%s" % (err["exc"], err["func"])
            if fl.ctor_err:
                stats[cls + " ctor refused as predicted"] += 1
            else:
                stats[cls + " " + tag + " UNPREDICTED"] += 1
                show(tag, spec, (err, fl.und, fl.und_T))
            continue
        if fl.ctor_err:
            stats[cls + " CTOR_ACCEPTED_BUT_R_PREDICTS_REFUSAL"] += 1
            show("ctor_accept", spec, fl.ctor_err)
            continue
        if fl.und_T:
            stats[cls + " und_T"] += 1
            continue
        Ti = block.trials_per_sample()
        if Ti != fl.T:
            stats[cls + " T_DIFF"] += 1
            show("T_DIFF", spec, (Ti, fl.T, fl.und, [(c["names"], c["S"], c["p"], c["cw"]) for c in fl.crossings]))
            continue
        if fl.und:
            stats[cls + " und:" + fl.und[:40]] += 1
            continue
        if fl.T > 9:
            stats[cls + " big"] += 1
            continue
        rs = ref.enumerate_valid(spec, fl, cap=400, node_cap=200000)
        if rs is None:
            stats[cls + " ref_toolarge"] += 1
            continue
        user = S.tree_design(spec["block"])
        want = collections.Counter()
        for s in rs:
            want[O.seq_key({k: s[k] for k in user})] += ref.multiplicity(spec, fl, s)
        total = sum(want.values())
        if total > 500:
            stats[cls + " ref_toolarge"] += 1
            continue
        for tag, strat in (("SAT", "IterateSATGen"), ("RND", "RandomGen")):
            b2, _, _ = O.construct(spec)
            r, e, out = O.synth(b2, total + 30, strat)
            if e:
                k = "%s_exc:%s:%s" % (tag, e["exc"], e["func"])
                stats[cls + " " + k] += 1
                show(k, spec, e)
                continue
            got = norm(r)
            if got == want:
                stats[cls + " " + tag + "_agree" + ("_empty" if not want else "")] += 1
            else:
                extra = [x for x in got if x not in want]
                missing = [x for x in want if x not in got]
                multi = [x for x in got if x in want and got[x] != want[x]]
                kind = tag + ("_EXTRA" if extra else "") + ("_MISSING" if missing else "") + ("_MULT" if multi and not extra and not missing else "")
                stats[cls + " " + kind] += 1
                why = ref.valid(spec, fl, json.loads(extra[0])) if extra else None
                show(cls + kind, spec, (len(got), len(want), "extra", extra[:1], why, "missing", missing[:1], "mult", [(got[x], want[x]) for x in multi[:2]], O.block_errors(b2)))
    except TO:
        stats[cls + " timeout"] += 1
    finally:
        signal.alarm(0)
for k in sorted(stats):
    print("%5d  %s" % (stats[k], k))
