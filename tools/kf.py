"""Development aid: append a known-finding entry whose witness is the case of a replay file.
usage: kf.py <id> <property> <replay.json|-> '<match json>' '<what>'"""
import json
import os
import sys

root = os.path.dirname(os.path.dirname(os.path.abspath(__file__)))
fid, pid, replay, match, what = sys.argv[1:6]
p = os.path.join(root, "known_findings.json")
d = json.load(open(p))
wit = []
if replay != "-":
    wit = [json.load(open(replay))["case"]]
entry = {"id": fid, "property": pid, "what": what, "match": json.loads(match), "witnesses": wit}
d["findings"] = [f for f in d["findings"] if f["id"] != fid] + [entry]
json.dump(d, open(p, "w"), indent=1)
print("added", fid, "witnesses:", len(wit))
