#!/bin/sh
# usage: tools/thorough.sh <seed> <props...>  — thorough tier on the unchanged tree, no evidence written
SEED="$1"; shift
for p in "$@"; do
  VERIF_JOBS=${VERIF_JOBS:-8} VERIF_SEED=$SEED ./check $p --tier thorough --no-evidence 2>&1 | grep -E "VIOLATION|INCONCLUSIVE|verdict=|  ->" | cut -c1-400
done
