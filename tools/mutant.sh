#!/bin/sh
# usage: tools/mutant.sh <patch.diff> <seed> <props...>
# Evaluates a seeded change WITHOUT touching /repo: the patch is applied to a throw-away worktree of /repo's HEAD
# under /tmp and the checks run against it through SWEETPEA_REPO. (Equivalent to apply / run / checkout on /repo,
# but safe while background runs use /repo.)
PATCH="$(readlink -f "$1")"; SEED="$2"; shift 2
WT=/tmp/mutant-$$
git -C /repo worktree add -q --detach "$WT" HEAD || exit 3
if ! git -C "$WT" apply "$PATCH"; then echo "PATCH DOES NOT APPLY"; git -C /repo worktree remove --force "$WT"; exit 3; fi
for p in "$@"; do
  SWEETPEA_REPO="$WT" VERIF_SEED=$SEED VERIF_JOBS=${VERIF_JOBS:-8} ./check $p --tier ${TIER:-quick} --no-evidence 2>&1 | grep -E "VIOLATION|INCONCLUSIVE|verdict=|  ->" | cut -c1-330 | head -${LINES_MAX:-8}
done
git -C /repo worktree remove --force "$WT"
