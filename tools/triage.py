"""Development aid: list replay files of a property with the design predicates that hold for each."""
import glob
import json
import os
import sys

sys.path.insert(0, os.path.dirname(os.path.dirname(os.path.abspath(__file__))))
from vlib import predicates as P  # noqa

PREDS = ["joint_impossible_combo", "pin_on_inapplicable_trial", "atleast_tail", "derived_over_complex",
         "window_wider_than_trials", "crossed_derived_over_uncrossed_derived", "runlength_on_stride",
         "partial_window", "has_weighted_uncrossed", "exclude_source_of_crossed_derived", "shared_weighted_uncrossed_in_subblock"]
pid = sys.argv[1]
for f in sorted(glob.glob(os.path.join(os.path.dirname(os.path.dirname(os.path.abspath(__file__))), "replay", pid, "*.json"))):
    d = json.load(open(f))
    case = d["case"]
    if not (case.get("spec") or case.get("spec_a")):
        continue
    ps = []
    for p in PREDS:
        try:
            if getattr(P, p)(case):
                ps.append(p)
        except Exception as e:
            ps.append(p + ":ERR")
    for v in d["violations"]:
        keys = {k: v.get(k) for k in ("kind", "strategy", "exc", "func", "reason_class", "constraint_type", "all_missing", "more")
                if v.get(k) is not None}
        print(os.path.basename(f)[:8], keys, ps)
        if len(sys.argv) > 2:
            print("     ", v["msg"][:300])
